------------------------- MODULE SingleFlightSubgraph -------------------------
(***************************************************************************)
(* De-duplication of individual subgraph requests                          *)
(*   v2/pkg/engine/resolve/subgraph_request_singleflight.go                *)
(*   v2/pkg/engine/resolve/loader.go  loadByContext                        *)
(*                                                                         *)
(*   start --Arrive--> sfs.loaded(shared?) | ds.load (fetch is not a query)*)
(*   leader:   sfs.loaded(0) --BeginWork--> ds.load --EndWork-->            *)
(*             sfs.fin.deleted --FinClose--> sfs.fin.closed --Return-->     *)
(*   follower: sfs.loaded(1) --Wake--> sfs.woke(loaded|ctx) --AfterWoke-->  *)
(*             return | sfs.loaded (leader was cancelled: load again)       *)
(* The item carries the leader's response by reference or its error.        *)
(***************************************************************************)
EXTENDS Integers, Sequences, FiniteSets, TLC

CONSTANTS N, Fixed, MaxCancels

Req  == 1..N
Keys == 1..N
None == 0

VARIABLES cfg, table, loaded, pubk, pc, mine, lead, res, cancelled, out, panicked, ncancel

vars == <<cfg, table, loaded, pubk, pc, mine, lead, res, cancelled, out, panicked, ncancel>>

Configs ==
  { c \in [key: [Req -> Keys], elig: [Req -> BOOLEAN], work: [Keys -> {"ok", "err"}]] :
       /\ \A r \in Req : c.key[r] <= r
       /\ \A r \in Req : c.key[r] = 1 \/ \E q \in Req : q < r /\ c.key[q] = c.key[r] - 1
       /\ \A k \in Keys : (\A r \in Req : c.key[r] # k) => c.work[k] = "ok" }

Init ==
  /\ cfg \in Configs
  /\ table = [k \in Keys |-> None]
  /\ loaded = [e \in Req |-> FALSE]
  /\ pubk = [e \in Req |-> "none"]      \* "none" | "data" | "uperr" | "ctxerr"
  /\ pc = [r \in Req |-> "start"]
  /\ mine = [r \in Req |-> None]
  /\ lead = [r \in Req |-> FALSE]
  /\ res = [r \in Req |-> "none"]       \* what the request's fetch ended with
  /\ cancelled = [r \in Req |-> FALSE]
  /\ out = [r \in Req |-> "none"]
  /\ panicked = FALSE
  /\ ncancel = 0

Key(r) == cfg.key[r]
Work(r) == cfg.work[Key(r)]

\* client-visible outcome of a fetch result: an upstream failure renders the same error response for
\* everyone ("solo" for a key whose subgraph fails); a context error renders an error response that
\* differs from the solo response when the subgraph is healthy
OutOf(r, kind) == IF kind = "data" THEN "solo"
                  ELSE IF Work(r) = "err" THEN "solo" ELSE "otherdata"

GetOrCreateItem(r) ==
  IF table[Key(r)] = None
  THEN /\ table' = [table EXCEPT ![Key(r)] = r]
       /\ mine' = [mine EXCEPT ![r] = r]
       /\ lead' = [lead EXCEPT ![r] = TRUE]
       /\ pc' = [pc EXCEPT ![r] = "loadedL"]
  ELSE /\ table' = table
       /\ mine' = [mine EXCEPT ![r] = table[Key(r)]]
       /\ lead' = [lead EXCEPT ![r] = FALSE]
       /\ pc' = [pc EXCEPT ![r] = "loadedF"]

Arrive(r) ==
  /\ pc[r] = "start"
  /\ IF cfg.elig[r]
     THEN GetOrCreateItem(r)
     ELSE /\ pc' = [pc EXCEPT ![r] = "loading"]
          /\ UNCHANGED <<table, mine, lead>>
  /\ UNCHANGED <<cfg, loaded, pubk, res, cancelled, out, panicked, ncancel>>

BeginWork(r) ==
  /\ pc[r] = "loadedL"
  /\ pc' = [pc EXCEPT ![r] = "loading"]
  /\ UNCHANGED <<cfg, table, loaded, pubk, mine, lead, res, cancelled, out, panicked, ncancel>>

WakeLoaded(r) ==
  /\ pc[r] = "loadedF" /\ loaded[mine[r]]
  /\ pc' = [pc EXCEPT ![r] = "wokeD"]
  /\ UNCHANGED <<cfg, table, loaded, pubk, mine, lead, res, cancelled, out, panicked, ncancel>>

WakeCtx(r) ==
  /\ pc[r] = "loadedF" /\ cancelled[r]
  /\ pc' = [pc EXCEPT ![r] = "wokeC"]
  /\ UNCHANGED <<cfg, table, loaded, pubk, mine, lead, res, cancelled, out, panicked, ncancel>>

AfterWokeCtx(r) ==
  /\ pc[r] = "wokeC"
  /\ out' = [out EXCEPT ![r] = OutOf(r, "ctxerr")]
  /\ pc' = [pc EXCEPT ![r] = "returned"]
  /\ UNCHANGED <<cfg, table, loaded, pubk, mine, lead, res, cancelled, panicked, ncancel>>

\* follower takes over the leader's response / error
AfterWokeShared(r) ==
  /\ pc[r] = "wokeD"
  /\ ~(Fixed /\ pubk[mine[r]] = "ctxerr" /\ ~cancelled[r])
  /\ out' = [out EXCEPT ![r] = OutOf(r, pubk[mine[r]])]
  /\ pc' = [pc EXCEPT ![r] = "returned"]
  /\ UNCHANGED <<cfg, table, loaded, pubk, mine, lead, res, cancelled, panicked, ncancel>>

\* the leader failed with its own context error and we are alive: load again
AfterWokeRetry(r) ==
  /\ pc[r] = "wokeD"
  /\ Fixed /\ pubk[mine[r]] = "ctxerr" /\ ~cancelled[r]
  /\ GetOrCreateItem(r)
  /\ UNCHANGED <<cfg, loaded, pubk, res, cancelled, out, panicked, ncancel>>

DSResult(r) == IF cancelled[r] THEN "ctxerr" ELSE IF Work(r) = "err" THEN "uperr" ELSE "data"

EndWork(r) ==
  /\ pc[r] = "loading"
  /\ res' = [res EXCEPT ![r] = DSResult(r)]
  /\ IF mine[r] = None
     THEN /\ out' = [out EXCEPT ![r] = OutOf(r, DSResult(r))]
          /\ pc' = [pc EXCEPT ![r] = "returned"]
          /\ UNCHANGED <<table, pubk>>
     ELSE /\ pubk' = [pubk EXCEPT ![mine[r]] = DSResult(r)]      \* item.err / item.response set, then deferred Finish
          /\ table' = [table EXCEPT ![Key(r)] = None]
          /\ pc' = [pc EXCEPT ![r] = "finDeleted"]
          /\ out' = out
  /\ UNCHANGED <<cfg, loaded, mine, lead, cancelled, panicked, ncancel>>

FinClose(r) ==
  /\ pc[r] = "finDeleted"
  /\ IF loaded[mine[r]]
     THEN /\ panicked' = TRUE /\ loaded' = loaded
     ELSE /\ loaded' = [loaded EXCEPT ![mine[r]] = TRUE] /\ panicked' = panicked
  /\ pc' = [pc EXCEPT ![r] = "finClosed"]
  /\ UNCHANGED <<cfg, table, pubk, mine, lead, res, cancelled, out, ncancel>>

Return(r) ==
  /\ pc[r] = "finClosed"
  /\ out' = [out EXCEPT ![r] = OutOf(r, res[r])]
  /\ pc' = [pc EXCEPT ![r] = "returned"]
  /\ UNCHANGED <<cfg, table, loaded, pubk, mine, lead, res, cancelled, panicked, ncancel>>

Cancel(r) ==
  /\ ~cancelled[r] /\ pc[r] # "returned" /\ ncancel < MaxCancels
  /\ cancelled' = [cancelled EXCEPT ![r] = TRUE]
  /\ ncancel' = ncancel + 1
  /\ UNCHANGED <<cfg, table, loaded, pubk, pc, mine, lead, res, out, panicked>>

ActNames == {"Arrive", "BeginWork", "WakeLoaded", "WakeCtx", "AfterWokeCtx", "AfterWokeShared", "AfterWokeRetry",
             "EndWork", "FinClose", "Return", "Cancel"}

Step(r, a) ==
  CASE a = "Arrive" -> Arrive(r)
    [] a = "BeginWork" -> BeginWork(r)
    [] a = "WakeLoaded" -> WakeLoaded(r)
    [] a = "WakeCtx" -> WakeCtx(r)
    [] a = "AfterWokeCtx" -> AfterWokeCtx(r)
    [] a = "AfterWokeShared" -> AfterWokeShared(r)
    [] a = "AfterWokeRetry" -> AfterWokeRetry(r)
    [] a = "EndWork" -> EndWork(r)
    [] a = "FinClose" -> FinClose(r)
    [] a = "Return" -> Return(r)
    [] a = "Cancel" -> Cancel(r)

Internal(r) == \E a \in ActNames \ {"Cancel"} : Step(r, a)
Next == \E r \in Req : \E a \in ActNames : Step(r, a)
AllReturned == \A r \in Req : pc[r] = "returned"
Spec == Init /\ [][Next]_vars /\ \A r \in Req : WF_vars(Internal(r))

-----------------------------------------------------------------------------
NoPanic == ~panicked
Transparent == \A r \in Req : pc[r] = "returned" => (out[r] = "solo" \/ (cancelled[r] /\ out[r] = "otherdata"))
NoForeignCancel == \A r \in Req : (pc[r] = "returned" /\ ~cancelled[r]) => out[r] # "otherdata"
SharedOnlyIfSameKey == \A r \in Req : mine[r] # None => (cfg.elig[r] /\ cfg.elig[mine[r]] /\ Key(r) = Key(mine[r]))
\* a follower reads the item only after the leader closed `loaded` (response/err are written before)
NoTornBuffer == \A r \in Req : (pc[r] = "returned" /\ ~lead[r] /\ mine[r] # None /\ ~cancelled[r]) => loaded[mine[r]]
LeaderOwnsEntry == \A r \in Req : lead[r] => mine[r] = r
EveryoneReturns == <>[]AllReturned
NoWedge == \A r \in Req : pc[r] = "loadedF" ~> pc[r] # "loadedF"
=============================================================================
