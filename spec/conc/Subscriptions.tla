---------------------------- MODULE Subscriptions ----------------------------
(***************************************************************************)
(* Subscription registry, triggers, updater and per-subscription writer     *)
(* guard of v2/pkg/engine/resolve/resolve.go (C12, C13).                    *)
(*                                                                         *)
(* Grain: ONE ACTION = ONE RECORDED EVENT.  Every action below is the       *)
(* stretch of code of one goroutine ("actor") that ends with the event it   *)
(* logs: a verif hook inside the lock that protects the state it changed    *)
(* (sub.add, sub.remove, trig.detach, sub.closed, ...), a call on the       *)
(* harness' SubscriptionResponseWriter (w.xxx), or a harness-side marker      *)
(* (h.xxx).  The variable lab holds that event; the trace specification       *)
(* (Trace_Subs) constrains lab' to the event read from the log, the         *)
(* generator (Gen_Subs) groups the actions of one actor between two         *)
(* parking points into one schedule step.                                   *)
(*                                                                         *)
(* Actors (goroutines):                                                     *)
(*   <<"c",s,0>>  client of subscriber slot s (harness): subscribe, then    *)
(*                unsubscribe / remove its connection                       *)
(*   <<"s",i,0>>  the data source of trigger instance i (harness), drives   *)
(*                the SubscriptionUpdater: Update Complete Error Heartbeat  *)
(*                Done;   <<"d",i,0>> a second goroutine of the same source *)
(*                (one Update or Done, e.g. the ctx.AfterFunc of the        *)
(*                graphql data source)                                      *)
(*   <<"g",i,0>>  start goroutine of instance i   (addSubscription: go ...) *)
(*   <<"u",s,e>>  executeSubscriptionUpdate of event e for subscriber s     *)
(*   <<"sh",0,0>> shutdownResolver (context.AfterFunc of the resolver ctx)  *)
(*   <<"env",0,0>> cancels the resolver context                             *)
(* A trigger INSTANCE is named by the subscriber that created it; the       *)
(* trigger ID (hash of input+headers) is the subscriber's key.  Every       *)
(* lookup the code does "by id" goes through reg[key] at the moment it      *)
(* executes.                                                                *)
(*                                                                         *)
(* FixD5 / FixInit / FixDetach / FixUpdater = FALSE model the pinned tree:  *)
(*   D5  handleTriggerComplete/Error test `removed` outside writeMu and     *)
(*       complete()/error() do not re-check it;                             *)
(*   D6  markTriggerInitialized / doneTriggerFromUpdater / handleTrigger*   *)
(*       find the trigger by id, whatever instance now has it, and          *)
(*       markTriggerInitialized sets `initialized` after releasing r.mu.    *)
(* = TRUE model the proposed repairs (used for the positive model check).   *)
(***************************************************************************)
EXTENDS Integers, Sequences, FiniteSets, TLC

CONSTANTS NS,         \* subscriber slots (= max trigger instances = max keys)
          MaxEvents,  \* Update commands in total
          MaxTerm,    \* budget of client-side terminators (unsubscribe, remove client, early shutdown, flush / heartbeat failure)
          MaxSrcTerm, \* budget of source-side terminators (Complete, Error, a bare Done)
          MaxHB,      \* Heartbeat commands
          UseD,       \* second source goroutine present
          StartModes, \* subset of {"ok","fail","ctx"} a Start call may be scripted with
          FixD5,      \* complete()/error() re-check removed under writeMu
          FixInit,    \* markTriggerInitialized: own trigger only, flag + TriggerCountInc set under r.mu
          FixDetach,  \* doneTriggerFromUpdater: detaches the caller's own trigger only
          FixUpdater, \* handleTrigger*: the updater acts on its own trigger (no lookup by id)
          CfgOK(_),   \* restriction of the configurations explored (TRUE = all)
          Features    \* subset of {"fetch", "ferr", "rerr", "hooks"}: optional dimensions of a configuration

Subs   == 1..NS
Inst   == 1..NS
Keys   == 1..NS
Events == 1..MaxEvents

NoActor == <<"-", 0, 0>>
C(s)    == <<"c", s, 0>>
S(i)    == <<"s", i, 0>>
D(i)    == <<"d", i, 0>>
G(i)    == <<"g", i, 0>>
U(s, e) == <<"u", s, e>>
H(s)    == <<"h", s, 0>>       \* goroutine running the start-up hook of a subscriber that joined an existing trigger
X(s)    == <<"x", s, 0>>       \* the client of a synchronous subscription going away (cancels the request context)
SH      == <<"sh", 0, 0>>
ENV     == <<"env", 0, 0>>
Actors  == {C(s) : s \in Subs} \cup {S(i) : i \in Inst} \cup {D(i) : i \in Inst} \cup {G(i) : i \in Inst}
           \cup {U(s, e) : s \in Subs, e \in Events} \cup {H(s) : s \in Subs} \cup {X(s) : s \in Subs} \cup {SH, ENV}

VARIABLES
  cfg,   \* [key, filt, conn, start]  fixed after Init
  g,     \* shared state of the resolver (registry, flags, locks)
  o,     \* observations / history variables the properties talk about
  ac,    \* Actors -> local state [pc, cur, todo, cq, kq, ret, nx, e, fan]
  lab    \* the event logged by the last action
vars == <<cfg, g, o, ac, lab>>

Key(s) == cfg.key[s]
Pass(s, e) == cfg.filt[s] = "all" \/ (cfg.filt[s] = "odd" /\ e % 2 = 1)     \* the subscriber's SubscriptionFilter
FErr(s) == cfg.filt[s] = "err"                      \* ... whose evaluation fails (invalid filter template) for every event
AllFalse == [s \in Subs |-> FALSE]
Sync(s) == cfg.sync /\ s = 1
Conn(s) == IF Sync(s) THEN 0 ELSE cfg.conn[s]      \* the synchronous call draws a connection id of its own

Configs ==
  { c \in [key: [Subs -> Keys], conn: [Subs -> Subs], start: [Inst -> StartModes],
           filt: [Subs -> IF "ferr" \in Features THEN {"all", "odd", "err"} ELSE {"all", "odd"}],
           fetch: IF "fetch" \in Features THEN [Subs -> BOOLEAN] ELSE {AllFalse},   \* nested fetch in the response plan of s (runs between the event and writeMu)
           rerr: IF "rerr" \in Features THEN [Subs -> BOOLEAN] ELSE {AllFalse},     \* rendering the response of s fails (error written under writeMu instead of the message)
           hooks: IF "hooks" \in Features THEN BOOLEAN ELSE {FALSE},                \* the data source has start-up hooks (SubscriptionOnStart per subscriber)
           hookfail: IF "hooks" \in Features THEN [Subs -> BOOLEAN] ELSE {AllFalse},
           sync: IF "sync" \in Features THEN BOOLEAN ELSE {FALSE}] :   \* subscriber 1 uses the synchronous ResolveGraphQLSubscription (own connection id)
       /\ (~c.hooks => c.hookfail = AllFalse)
       /\ \A s \in Subs : c.key[s] <= s /\ c.conn[s] <= s
       /\ \A s \in Subs : c.key[s] = 1 \/ \E q \in Subs : q < s /\ c.key[q] = c.key[s] - 1
       /\ \A s \in Subs : c.conn[s] = 1 \/ \E q \in Subs : q < s /\ c.conn[q] = c.conn[s] - 1
       /\ CfgOK(c) }

Local0 == [pc |-> "none", cur |-> 0, todo |-> {}, cq |-> {}, kq |-> {}, ret |-> "", nx |-> "", e |-> 0, fan |-> {}, n |-> 0, wn |-> ""]

InitG == [reg     |-> [k \in Keys |-> 0],
          isubs   |-> [i \in Inst |-> {}],
          byid    |-> {},
          sinst   |-> [s \in Subs |-> 0],
          shut    |-> FALSE,
          rctx    |-> FALSE,
          created |-> [i \in Inst |-> FALSE],
          srcok   |-> [i \in Inst |-> FALSE],
          init    |-> [i \in Inst |-> FALSE],
          tctx    |-> [i \in Inst |-> FALSE],
          cctx    |-> [s \in Subs |-> FALSE],      \* request context of the (synchronous) subscriber cancelled
          udone   |-> [i \in Inst |-> FALSE],
          removed |-> [s \in Subs |-> FALSE],
          closed  |-> [s \in Subs |-> 0],
          lastw   |-> [s \in Subs |-> FALSE],
          resMu   |-> NoActor,
          updMu   |-> [i \in Inst |-> NoActor],
          wMu     |-> [s \in Subs |-> NoActor]]

InitO == [wdata   |-> [s \in Subs |-> <<>>],   \* events delivered (flushed) to the writer of s, in order
          wafter  |-> {},                      \* <<kind, s>>: writer calls that happened after completed(s) was closed
          overlap |-> FALSE,                   \* two writer calls of one subscriber overlapped (observed by the writer)
          badbytes|-> FALSE,                   \* a message differed from the solo response / carried a foreign key
          emitted |-> [k \in Keys |-> <<>>],   \* events in fan-out order per trigger id
          must    |-> [s \in Subs |-> {}],     \* events whose fan-out completed while s was subscribed and that pass its filter
          nstart  |-> [i \in Inst |-> 0],
          subInc  |-> 0, subDec |-> 0, trigInc |-> 0, trigDec |-> 0,
          stale   |-> {},                      \* kinds of actions a goroutine of instance i performed on another instance
          lateInit|-> FALSE,                   \* `initialized` set (and TriggerCountInc reported) for an instance already detached
          added   |-> {},                      \* subscribers that were registered
          final   |-> FALSE,                   \* the environment issued its last command (the final shutdown)
          nev     |-> 0, nterm |-> 0, nsterm |-> 0, nhb |-> 0]

Init ==
  /\ cfg \in Configs
  /\ g = InitG
  /\ o = InitO
  /\ ac = [a \in Actors |->
             CASE a[1] = "c" -> [Local0 EXCEPT !.pc = "c.idle0"]
               [] a[1] = "s" -> [Local0 EXCEPT !.pc = "s.idle"]
               [] a[1] = "d" -> [Local0 EXCEPT !.pc = IF UseD THEN "s.idle" ELSE "s.end"]
               [] a[1] = "env" -> [Local0 EXCEPT !.pc = "env"]
               [] a[1] = "x" -> [Local0 EXCEPT !.pc = IF Sync(a[2]) THEN "x.idle" ELSE "x.end"]
               [] OTHER -> Local0]
  /\ lab = [a |-> NoActor, n |-> "init", x |-> 0, y |-> 0, z |-> 0]

-----------------------------------------------------------------------------
(* plumbing *)

L(a, n, x, y, z) == [a |-> a, n |-> n, x |-> x, y |-> y, z |-> z]

\* one actor changes its local state
Do(a, loc, ng, no, n, x, y, z) ==
  /\ ac' = [ac EXCEPT ![a] = loc]
  /\ g' = ng /\ o' = no /\ lab' = L(a, n, x, y, z) /\ UNCHANGED cfg
\* several actors change (spawns)
DoAc(nac, ng, no, a, n, x, y, z) ==
  /\ ac' = nac
  /\ g' = ng /\ o' = no /\ lab' = L(a, n, x, y, z) /\ UNCHANGED cfg

B(b) == IF b THEN 1 ELSE 0
\* tolerance of unlogged lock acquisitions in the TRACE specification only (overridden there), see MaySkip / MayProceed
RaceTolerant == FALSE
CallPCs == {"up.call", "co.call", "er.call", "hb.call", "cs.call"}
LatePc(p) == p \o "~"
Inst0(a) == a[2]                            \* instance of a source / start actor
Free(m) == m = NoActor

\* where an actor continues after closeSubs + cancels
TdPc(cq, kq, ret) == IF cq = {} /\ kq = {} THEN ret ELSE "td"

\* removeSubscriptionLocked(s) on state gg/oo : [g, o, cq, kq, flags]
Remove(gg, oo, s) ==
  LET k == Key(s)
      j == gg.reg[k]
  IN IF s \notin gg.byid THEN [g |-> gg, o |-> oo, cq |-> {}, kq |-> {}, flags |-> 0]
     ELSE IF j = 0 \/ s \notin gg.isubs[j]
          THEN [g |-> [gg EXCEPT !.byid = @ \ {s}], o |-> oo, cq |-> {}, kq |-> {}, flags |-> 0]
     ELSE LET cas  == ~gg.removed[s]
              empt == gg.isubs[j] = {s}
              ini  == empt /\ gg.init[j]
          IN [g |-> [gg EXCEPT !.removed[s] = TRUE, !.isubs[j] = @ \ {s}, !.byid = @ \ {s},
                               !.reg[k] = IF empt THEN 0 ELSE @],
              o |-> [oo EXCEPT !.subDec = @ + 1, !.trigDec = @ + B(ini)],
              cq |-> IF cas THEN {s} ELSE {},
              kq |-> IF empt THEN {j} ELSE {},
              flags |-> 1 + 2 * B(cas) + 4 * B(empt) + 8 * B(ini)]

\* detachTriggerLocked(k): by id
Detach(gg, oo, k) ==
  LET j == gg.reg[k] IN
  IF j = 0 THEN [g |-> gg, o |-> oo, cq |-> {}, kq |-> {}, flags |-> 0]
  ELSE LET m == gg.isubs[j]
           w == {s \in m : ~gg.removed[s]}
       IN [g |-> [gg EXCEPT !.removed = [s \in Subs |-> IF s \in m THEN TRUE ELSE @[s]],
                            !.byid = @ \ m, !.isubs[j] = {}, !.reg[k] = 0],
           o |-> [oo EXCEPT !.subDec = @ + Cardinality(m), !.trigDec = @ + B(gg.init[j])],
           cq |-> w, kq |-> {j},
           flags |-> 1 + 2 * Cardinality(m)]

\* a writer call on subscriber s (kind) : bookkeeping for NoWriteAfterClose
WCall(oo, gg, kind, s) == IF gg.closed[s] > 0 THEN [oo EXCEPT !.wafter = @ \cup {<<kind, s>>}] ELSE oo

\* An error message is written through the AsyncErrorWriter under writeMu (writeError / failed render). The harness' writer has a gate
\* inside that write: w.werr.enter (the actor sits inside the writer holding writeMu[s]; cur = s), then w.werr when the write returns.
WerrEnter(a, s, loc) == Do(a, loc, [g EXCEPT !.wMu[s] = a], WCall(o, g, "werror", s), "w.werr.enter", s, 0, 0)
WerrDone(a) == LET s == ac[a].cur IN
  /\ ac[a].pc = "we.in"
  /\ Do(a, [ac[a] EXCEPT !.pc = ac[a].wn], [g EXCEPT !.wMu[s] = NoActor], WCall(o, g, "werror", s), "w.werr", s, 0, 0)

\* an actor of instance i acts on the instance j it found by id
Stale(oo, kind, i, j) == IF j # 0 /\ j # i THEN [oo EXCEPT !.stale = @ \cup {kind}] ELSE oo

-----------------------------------------------------------------------------
(* client: AsyncResolveGraphQLSubscription / UnsubscribeSubscription / UnsubscribeClient *)

CCmdSub(s) == LET a == C(s) IN
  /\ ac[a].pc = "c.idle0" /\ ~o.final
  /\ Do(a, [ac[a] EXCEPT !.pc = "c.sub"], g, o, "h.cmd", 1, s, 0)

\* addSubscription [r.mu]
CSub(s) == LET a == C(s)  k == Key(s)  j == g.reg[k] IN
  /\ ac[a].pc = "c.sub" /\ Free(g.resMu)
  /\ IF g.shut
     THEN Do(a, [ac[a] EXCEPT !.pc = "c.end"], g, o, "h.ret", s, 1, 0)
     ELSE IF j # 0
     THEN DoAc([ac EXCEPT ![a].pc = IF Sync(s) THEN "c.wait" ELSE "c.added", ![H(s)].pc = IF cfg.hooks THEN "h.spawned" ELSE @],
               [g EXCEPT !.isubs[j] = @ \cup {s}, !.byid = @ \cup {s}, !.sinst[s] = j],
               [o EXCEPT !.subInc = @ + 1, !.added = @ \cup {s}], a, "sub.add", s, 0, 0)
     ELSE DoAc([ac EXCEPT ![a].pc = IF Sync(s) THEN "c.wait" ELSE "c.added", ![G(s)].pc = "g.spawned"],
               [g EXCEPT !.reg[k] = s, !.isubs[s] = {s}, !.byid = @ \cup {s}, !.sinst[s] = s, !.created[s] = TRUE],
               [o EXCEPT !.subInc = @ + 1, !.added = @ \cup {s}], a, "sub.add", s, 1, 0)

\* ResolveGraphQLSubscription after addSubscription: select { <-ctx.Done() ; <-r.ctx.Done() ; <-completed }: any ready case may be taken
\*   ctx.Done:   UnsubscribeSubscription, then select { <-completed ; <-r.ctx.Done() }
\*   completed:  UnsubscribeSubscription (a no-op by then), return nil
\*   r.ctx.Done: return the resolver's context error
CWaitUnsub(s) == LET a == C(s) IN
  /\ \/ ac[a].pc = "c.wait" /\ g.cctx[s]
     \/ ac[a].pc \in {"c.wait", "c.wait2"} /\ g.closed[s] > 0
  /\ Do(a, [ac[a] EXCEPT !.pc = "un.begin", !.cur = s, !.ret = IF g.closed[s] > 0 THEN "c.ret" ELSE "c.wait2"], g, o, "sub.unsub.begin", s, 0, 0)
CWaitShutdown(s) == LET a == C(s) IN
  /\ ac[a].pc \in {"c.wait", "c.wait2"} /\ g.rctx
  /\ Do(a, [ac[a] EXCEPT !.pc = "c.end"], g, o, "h.ret", s, 1, 0)
WaitBlocked(a) == \/ ac[a].pc = "c.wait" /\ ~g.cctx[a[2]] /\ ~g.rctx /\ g.closed[a[2]] = 0
                  \/ ac[a].pc = "c.wait2" /\ ~g.rctx /\ g.closed[a[2]] = 0

\* the client of the synchronous subscription goes away (environment; not while an update of that subscriber is in flight)
XCancel(s) == LET a == X(s) IN
  /\ ac[a].pc = "x.idle" /\ o.nterm < MaxTerm /\ ~o.final /\ ac[C(s)].pc \in {"c.idle0", "c.wait"}   \* also before the call: a request that is already dead
  /\ \A e \in Events : ac[U(s, e)].pc \in {"none", "u.end"}
  /\ Do(a, [ac[a] EXCEPT !.pc = "x.end"], [g EXCEPT !.cctx[s] = TRUE], [o EXCEPT !.nterm = @ + 1], "h.cmd", 12, s, 0)

CAdded(s) == LET a == C(s) IN
  /\ ac[a].pc = "c.added"
  /\ Do(a, [ac[a] EXCEPT !.pc = "c.idle1"], g, o, "h.ret", s, 0, 0)

CCmdUnsub(s) == LET a == C(s) IN
  /\ ac[a].pc = "c.idle1" /\ o.nterm < MaxTerm /\ ~o.final
  /\ Do(a, [ac[a] EXCEPT !.pc = "un.call", !.cur = s, !.ret = "c.ret"], g, [o EXCEPT !.nterm = @ + 1], "h.cmd", 2, s, 0)

CCmdRmClient(s) == LET a == C(s) IN
  /\ ac[a].pc = "c.idle1" /\ o.nterm < MaxTerm /\ ~o.final
  /\ Do(a, [ac[a] EXCEPT !.pc = "rc.call", !.cur = cfg.conn[s], !.ret = "c.ret"], g, [o EXCEPT !.nterm = @ + 1], "h.cmd", 3, cfg.conn[s], 0)

CRet(s) == LET a == C(s) IN
  /\ ac[a].pc = "c.ret"
  /\ Do(a, [ac[a] EXCEPT !.pc = "c.end"], g, o, "h.ret", s, 0, 0)

\* removeClient [r.mu held across all removals of the connection]
RcStep(a) ==
  /\ ac[a].pc \in {"rc.call", "rc.loop"}
  /\ IF ac[a].pc = "rc.call"
     THEN /\ Free(g.resMu)
          /\ LET m == IF g.shut THEN {} ELSE {s \in g.byid : Conn(s) = ac[a].cur} IN
             IF m = {}
             THEN Do(a, [ac[a] EXCEPT !.pc = "c.end"], g, o, "h.ret", a[2], 0, 0)
             ELSE \E s \in m :
                    LET r == Remove(g, o, s)  rest == m \ {s} IN
                    Do(a, [ac[a] EXCEPT !.pc = IF rest = {} THEN TdPc(r.cq, r.kq, ac[a].ret) ELSE "rc.loop",
                                        !.todo = rest, !.cq = r.cq, !.kq = r.kq],
                       [r.g EXCEPT !.resMu = IF rest = {} THEN NoActor ELSE a], r.o, "sub.remove", s, r.flags, 0)
     ELSE \E s \in ac[a].todo :
            LET r == Remove(g, o, s)  rest == ac[a].todo \ {s}
                cq == ac[a].cq \cup r.cq  kq == ac[a].kq \cup r.kq IN
            Do(a, [ac[a] EXCEPT !.pc = IF rest = {} THEN TdPc(cq, kq, ac[a].ret) ELSE "rc.loop",
                                !.todo = rest, !.cq = cq, !.kq = kq],
               [r.g EXCEPT !.resMu = IF rest = {} THEN NoActor ELSE a], r.o, "sub.remove", s, r.flags, 0)

-----------------------------------------------------------------------------
(* UnsubscribeSubscription(cur) - used by clients, by the update goroutine after a failed Flush, by the heartbeat *)

UnCall(a) ==
  /\ ac[a].pc = "un.call"
  /\ Do(a, [ac[a] EXCEPT !.pc = "un.begin"], g, o, "sub.unsub.begin", ac[a].cur, 0, 0)

UnBegin(a) == LET s == ac[a].cur IN
  /\ ac[a].pc = "un.begin" /\ Free(g.resMu)
  /\ IF g.shut
     THEN Do(a, [ac[a] EXCEPT !.pc = ac[a].ret, !.cq = {}, !.kq = {}], g, o, "sub.remove", s, 16, 0)
     ELSE LET r == Remove(g, o, s) IN
          Do(a, [ac[a] EXCEPT !.pc = TdPc(r.cq, r.kq, ac[a].ret), !.cq = r.cq, !.kq = r.kq], r.g, r.o, "sub.remove", s, r.flags, 0)

(* closeSubs(toClose) ; cancel() ...   (outside r.mu) *)
TdNext(a) ==
  /\ ac[a].pc = "td"
  /\ IF ac[a].cq # {}
     THEN \E s \in ac[a].cq :
            Do(a, [ac[a] EXCEPT !.pc = "td.close", !.cur = s], g, o, "sub.close.begin", s, 0, 0)
     ELSE \E i \in ac[a].kq :
            LET kq == ac[a].kq \ {i} IN
            DoAc([x \in Actors |-> IF x = a THEN [ac[a] EXCEPT !.pc = TdPc({}, kq, ac[a].ret), !.kq = kq]
                                   ELSE IF RaceTolerant /\ x[1] \in {"s", "d"} /\ x[2] = i /\ ac[x].pc \in CallPCs /\ Free(g.updMu[i])
                                        THEN [ac[x] EXCEPT !.pc = LatePc(@)]
                                   ELSE ac[x]],
                 [g EXCEPT !.tctx[i] = TRUE], o, a, "trig.cancel", 0, 0, 0)

\* subscriptionState.done(): close(completed) [writeMu]
TdClose(a) == LET s == ac[a].cur  cq == ac[a].cq \ {s} IN
  /\ ac[a].pc = "td.close" /\ Free(g.wMu[s])
  /\ Do(a, [ac[a] EXCEPT !.pc = TdPc(cq, ac[a].kq, ac[a].ret), !.cq = cq],
        [g EXCEPT !.closed[s] = IF @ < 2 THEN @ + 1 ELSE @], o, "sub.closed", s, 0, 0)

-----------------------------------------------------------------------------
(* the data source driving the SubscriptionUpdater of instance i *)

SrcIdle(a) == ac[a].pc \in {"s.idle", "s.idle2"}
SrcReady(a) == g.srcok[Inst0(a)] /\ ~o.final

SCmdUpdate(a) == LET i == Inst0(a) IN
  /\ ac[a].pc = "s.idle" /\ SrcReady(a) /\ o.nev < MaxEvents
  /\ Do(a, [ac[a] EXCEPT !.pc = "up.call", !.e = o.nev + 1, !.cur = 0, !.nx = IF a[1] = "d" THEN "s.end" ELSE "s.idle"],
        g, [o EXCEPT !.nev = @ + 1], "h.cmd", 4, i, o.nev + 1)

\* UpdateSubscription(id, data): the event goes to ONE subscription (any slot: the id need not be on this trigger)
SCmdUpdSub(a, s) == LET i == Inst0(a) IN
  /\ ac[a].pc = "s.idle" /\ a[1] = "s" /\ SrcReady(a) /\ o.nev < MaxEvents
  /\ Do(a, [ac[a] EXCEPT !.pc = "up.call", !.e = o.nev + 1, !.cur = s, !.nx = "s.idle"],
        g, [o EXCEPT !.nev = @ + 1], "h.cmd", 11, i, (o.nev + 1) * 10 + s)

SCmdComplete(a) == LET i == Inst0(a) IN
  /\ ac[a].pc = "s.idle" /\ a[1] = "s" /\ SrcReady(a) /\ o.nsterm < MaxSrcTerm
  /\ Do(a, [ac[a] EXCEPT !.pc = "co.call", !.nx = "s.idle2"], g, [o EXCEPT !.nsterm = @ + 1], "h.cmd", 5, i, 0)

SCmdError(a) == LET i == Inst0(a) IN
  /\ ac[a].pc = "s.idle" /\ a[1] = "s" /\ SrcReady(a) /\ o.nsterm < MaxSrcTerm
  /\ Do(a, [ac[a] EXCEPT !.pc = "er.call", !.nx = "s.idle2"], g, [o EXCEPT !.nsterm = @ + 1], "h.cmd", 6, i, 0)

SCmdHeartbeat(a) == LET i == Inst0(a) IN
  /\ ac[a].pc = "s.idle" /\ a[1] = "s" /\ SrcReady(a) /\ o.nhb < MaxHB
  /\ Do(a, [ac[a] EXCEPT !.pc = "hb.call", !.nx = "s.idle"], g, [o EXCEPT !.nhb = @ + 1], "h.cmd", 7, i, 0)

\* CloseSubscription(id) for one of the subscriptions the updater reports (Subscriptions()): a client-side terminator issued by the source
SCmdCloseSub(a, s) == LET i == Inst0(a) IN
  /\ ac[a].pc = "s.idle" /\ a[1] = "s" /\ SrcReady(a) /\ o.nterm < MaxTerm /\ s \in g.isubs[i]
  /\ Do(a, [ac[a] EXCEPT !.pc = "cs.call", !.cur = s, !.nx = "s.idle"], g, [o EXCEPT !.nterm = @ + 1], "h.cmd", 10, i, s)

\* Done after Complete/Error is the normal epilogue (free); a bare Done is a terminator of its own
SCmdDone(a) == LET i == Inst0(a) IN
  /\ SrcIdle(a) /\ SrcReady(a) /\ (ac[a].pc = "s.idle2" \/ o.nsterm < MaxSrcTerm)
  /\ Do(a, [ac[a] EXCEPT !.pc = "dn.call", !.nx = "s.end"], g,
        [o EXCEPT !.nsterm = IF ac[a].pc = "s.idle2" THEN @ ELSE @ + 1], "h.cmd", 8, i, 0)

\* every updater method: lock upd.mu, `if s.done || s.ctx.Err() != nil { return }`
Skip(i) == g.udone[i] \/ g.tctx[i]
\* the trigger instance the updater of instance i acts on: its own (repaired), or whatever is registered under its id
\* (an instance that left the registry has no subscribers: isubs[i] = {})
Target(i) == IF FixUpdater THEN i ELSE g.reg[Key(i)]
\* cancel() and the trig.cancel record that follows it are two steps of the cancelling goroutine: an updater that was blocked and
\* got unblocked at the same time may already see the cancelled context although the record is not in the log yet. Only the trace
\* specification tolerates this (RaceTolerant is overridden there); the model and the generator keep the atomic reading.
CancelPending(i) == \E b \in Actors : ac[b].pc = "td" /\ ac[b].cq = {} /\ i \in ac[b].kq
MaySkip(i) == Skip(i) \/ (RaceTolerant /\ CancelPending(i))
\* The mirror image: an updater goroutine that was BLOCKED on upd.mu runs as soon as the holder leaves, beside whatever actor is scheduled;
\* its lock acquisition and its `done || ctx.Err()` test are not logged. If the trigger's cancel is recorded while such an actor has issued
\* its call and upd.mu is free, the actor may already be past the test: from then on it is "late" (pc marked with ~) and both outcomes of
\* the test are accepted for this one call. Trace specification only.
AtCall(a, p) == ac[a].pc = p \/ ac[a].pc = LatePc(p)
Late(a) == ac[a].pc \in {LatePc(p) : p \in CallPCs}
MayProceed(a, i) == ~Skip(i) \/ (Late(a) /\ ~g.udone[i])

\* CloseSubscription: lock upd.mu, done/ctx check, UnsubscribeSubscription(id) with upd.mu held
CsCall(a) == LET i == Inst0(a) IN
  /\ AtCall(a, "cs.call") /\ Free(g.updMu[i])
  /\ \/ /\ MaySkip(i)
        /\ Do(a, [ac[a] EXCEPT !.pc = ac[a].nx], g, o, "upd.leave", Key(i), 0, 0)
     \/ /\ MayProceed(a, i)
        /\ Do(a, [ac[a] EXCEPT !.pc = "un.begin", !.ret = "s.ret"], [g EXCEPT !.updMu[i] = a], o, "sub.unsub.begin", ac[a].cur, 0, 0)

\* the method returns: unlock upd.mu (the upd.leave hook is deferred after the deferred Unlock, i.e. runs inside the lock)
SRet(a) == LET i == Inst0(a) IN
  /\ ac[a].pc = "s.ret"
  /\ Do(a, [ac[a] EXCEPT !.pc = ac[a].nx, !.fan = {}, !.todo = {}],
        [g EXCEPT !.updMu[i] = IF @ = a THEN NoActor ELSE @], o, "upd.leave", Key(i), 0, 0)

\* Update -> handleTriggerUpdate: getTrigger (by id), filterSubscriptions [trig.mu], wg.Go per subscriber
UpCall(a) == LET i == Inst0(a)  k == Key(i)  j == g.reg[k]  e == ac[a].e IN
  /\ AtCall(a, "up.call") /\ Free(g.updMu[i])
  /\ \/ /\ MaySkip(i) \/ (~FixUpdater /\ j = 0)
        /\ Do(a, [ac[a] EXCEPT !.pc = ac[a].nx], g, o, "upd.leave", Key(i), 0, 0)
     \/ /\ MayProceed(a, i) /\ ~(~FixUpdater /\ j = 0)
        /\ LET cand == {s \in (IF ac[a].cur = 0 THEN g.isubs[Target(i)] ELSE {ac[a].cur} \cap g.isubs[Target(i)]) : ~g.cctx[s]}
               t == {s \in cand : Pass(s, e)}
               fe == {s \in cand : FErr(s)} IN
          \* filterSubscriptions [trig.mu]: who gets the event, whose filter failed; nothing is spawned yet
          Do(a, [ac[a] EXCEPT !.pc = "up.fe", !.fan = t, !.todo = fe, !.n = Cardinality(fe)],
             [g EXCEPT !.updMu[i] = a],
             Stale([o EXCEPT !.emitted[k] = Append(@, e)], "update", i, Target(i)),
             "trig.fanout", k, Cardinality(t), 0)

\* the filter errors are written (writeError each) by the source goroutine itself, then the update goroutines are spawned for the
\* subscribers that are not removed by then (wg.Go; UpdateSubscription: the one update runs inline, which is the same to everybody else)
FeNext(a, todo) == LET i == Inst0(a)  k == Key(i)  e == ac[a].e IN
  IF todo # {}
  THEN \E s \in todo :
         Do(a, [ac[a] EXCEPT !.pc = "up.fechk", !.cur = s, !.todo = todo \ {s}], g, o, "sub.werr.begin", s, 0, 0)
  ELSE LET t == {s \in ac[a].fan : ~g.removed[s]} IN
       DoAc([x \in Actors |-> IF x = a THEN [ac[a] EXCEPT !.pc = "up.wait", !.fan = t, !.todo = {}]
                              ELSE IF x[1] = "u" /\ x[2] \in t /\ x[3] = e THEN [Local0 EXCEPT !.pc = "u.spawned", !.e = e]
                              ELSE ac[x]],
            g, o, a, "trig.spawn", k, ac[a].n, 0)
UpFe(a) ==
  /\ ac[a].pc \in {"up.fe", "up.fenext"}
  /\ FeNext(a, ac[a].todo)
FeChk(a) == LET s == ac[a].cur IN
  /\ ac[a].pc = "up.fechk" /\ Free(g.wMu[s])
  /\ IF g.removed[s]
     THEN FeNext(a, ac[a].todo)
     ELSE WerrEnter(a, s, [ac[a] EXCEPT !.pc = "we.in", !.wn = "up.fenext"])

\* wg.Wait() returned
UpWait(a) == LET i == Inst0(a)  e == ac[a].e IN
  /\ ac[a].pc = "up.wait"
  /\ \A s \in ac[a].fan : ac[U(s, e)].pc = "u.end"
  /\ Do(a, [ac[a] EXCEPT !.pc = ac[a].nx, !.fan = {}],
        [g EXCEPT !.updMu[i] = NoActor],
        [o EXCEPT !.must = [s \in Subs |-> IF s \in ac[a].fan /\ ~g.removed[s] /\ ~cfg.rerr[s] THEN @[s] \cup {e} ELSE @[s]]],
        "upd.leave", Key(i), 0, 0)

\* Complete / Error -> handleTriggerComplete / handleTriggerError
\* next subscriber of the snapshot that is not removed (checked WITHOUT writeMu), or return
CeNext(a, todo, gg, oo, kind) == LET i == Inst0(a)  live == {s \in todo : ~gg.removed[s]} IN
  IF live = {}
  THEN Do(a, [ac[a] EXCEPT !.pc = ac[a].nx, !.todo = {}], [gg EXCEPT !.updMu[i] = NoActor], oo, "upd.leave", Key(i), 0, 0)
  ELSE \E s \in live :
         Do(a, [ac[a] EXCEPT !.pc = kind \o ".chk", !.cur = s, !.todo = todo \ {s}], [gg EXCEPT !.updMu[i] = a], oo,
            IF kind = "co" THEN "sub.complete.checked" ELSE "sub.error.checked", s, 0, 0)

CeCall(a, kind) == LET i == Inst0(a)  k == Key(i)  j == g.reg[k] IN
  /\ AtCall(a, kind \o ".call") /\ Free(g.updMu[i])
  /\ \/ /\ MaySkip(i) \/ (~FixUpdater /\ j = 0)
        /\ Do(a, [ac[a] EXCEPT !.pc = ac[a].nx], g, o, "upd.leave", Key(i), 0, 0)
     \/ /\ MayProceed(a, i) /\ ~(~FixUpdater /\ j = 0)
        /\ CeNext(a, g.isubs[Target(i)], g, Stale(o, IF kind = "co" THEN "complete" ELSE "error", i, Target(i)), kind)

\* complete() / error(): writer.Complete() / writer.Error() [writeMu]
CeChk(a, kind) == LET s == ac[a].cur IN
  /\ ac[a].pc = kind \o ".chk" /\ Free(g.wMu[s])
  /\ IF FixD5 /\ g.removed[s]
     THEN CeNext(a, ac[a].todo, g, o, kind)
     ELSE Do(a, [ac[a] EXCEPT !.pc = kind \o ".next"], g, WCall(o, g, IF kind = "co" THEN "complete" ELSE "error", s),
             IF kind = "co" THEN "w.complete" ELSE "w.error", s, 0, 0)

CeStep(a, kind) ==
  /\ ac[a].pc = kind \o ".next"
  /\ CeNext(a, ac[a].todo, g, o, kind)

\* Heartbeat -> heartbeatTriggerSubscriptions: targets chosen up front, executeSubscriptionHeartbeat each
HbNext(a, todo0, gg, oo) == LET i == Inst0(a)  todo == {s \in todo0 : ~gg.cctx[s]} IN
  IF todo = {} \/ gg.rctx
  THEN Do(a, [ac[a] EXCEPT !.pc = ac[a].nx, !.todo = {}], [gg EXCEPT !.updMu[i] = NoActor], oo, "upd.leave", Key(i), 0, 0)
  ELSE \E s \in todo :
         Do(a, [ac[a] EXCEPT !.pc = "hb.chk", !.cur = s, !.todo = todo \ {s}], [gg EXCEPT !.updMu[i] = a], oo, "sub.hb.begin", s, 0, 0)

HbCall(a) == LET i == Inst0(a)  k == Key(i)  j == g.reg[k] IN
  /\ AtCall(a, "hb.call") /\ Free(g.updMu[i])
  /\ \/ /\ MaySkip(i) \/ (~FixUpdater /\ j = 0)
        /\ Do(a, [ac[a] EXCEPT !.pc = ac[a].nx], g, o, "upd.leave", Key(i), 0, 0)
     \/ /\ MayProceed(a, i) /\ ~(~FixUpdater /\ j = 0)
        /\ HbNext(a, {s \in g.isubs[Target(i)] : ~g.removed[s] /\ ~g.lastw[s]}, g, Stale(o, "heartbeat", i, Target(i)))

\* sendHeartbeat [writeMu, re-checks removed]; a failing Heartbeat() unsubscribes
HbChk(a) == LET s == ac[a].cur IN
  /\ ac[a].pc = "hb.chk" /\ Free(g.wMu[s])
  /\ IF g.removed[s]
     THEN HbNext(a, ac[a].todo, g, o)
     ELSE \/ Do(a, [ac[a] EXCEPT !.pc = "hb.next"], g, WCall(o, g, "heartbeat", s), "w.hb", s, 1, 0)
          \/ /\ o.nterm < MaxTerm
             /\ Do(a, [ac[a] EXCEPT !.pc = "un.call", !.ret = "hb.next"], g,
                   [WCall(o, g, "heartbeat", s) EXCEPT !.nterm = @ + 1], "w.hb", s, 0, 0)

HbStep(a) ==
  /\ ac[a].pc = "hb.next"
  /\ HbNext(a, ac[a].todo, g, o)

\* Done: `if s.done { return }; s.done = true; doneTriggerFromUpdater(id)`
DnCall(a) == LET i == Inst0(a) IN
  /\ ac[a].pc = "dn.call" /\ Free(g.updMu[i])
  /\ IF g.udone[i]
     THEN Do(a, [ac[a] EXCEPT !.pc = ac[a].nx], g, o, "upd.leave", Key(i), 0, 0)
     ELSE Do(a, [ac[a] EXCEPT !.pc = "dt.begin", !.ret = "s.ret"], [g EXCEPT !.udone[i] = TRUE, !.updMu[i] = a], o,
             "trig.done.begin", Key(i), 0, 0)

\* doneTriggerFromUpdater(id) [r.mu]: detach BY ID, then closeSubs, cancel   (source Done and failed start)
DtBegin(a) == LET i == Inst0(a)  k == Key(i)  j == g.reg[k] IN
  /\ ac[a].pc = "dt.begin" /\ Free(g.resMu)
  /\ IF FixDetach /\ j # i
     THEN Do(a, [ac[a] EXCEPT !.pc = ac[a].ret, !.cq = {}, !.kq = {}], g, o, "trig.detach", k, 0, 0)
     ELSE LET r == Detach(g, o, k) IN
          Do(a, [ac[a] EXCEPT !.pc = TdPc(r.cq, r.kq, ac[a].ret), !.cq = r.cq, !.kq = r.kq],
             r.g, Stale(r.o, "detach", i, j), "trig.detach", k, r.flags, 0)

-----------------------------------------------------------------------------
(* executeSubscriptionUpdate(sub s, event e) *)

UBegin(a) ==
  /\ ac[a].pc = "u.spawned"
  /\ Do(a, [ac[a] EXCEPT !.pc = "u.begin"], g, o, "sub.update.begin", a[2], a[3], 0)

\* the resolve pipeline of the update reached the nested fetch of the subscriber's plan (fake data source = harness gate)
UFetch(a) ==
  /\ ac[a].pc = "u.begin" /\ cfg.fetch[a[2]]
  /\ Do(a, [ac[a] EXCEPT !.pc = "u.fetch"], g, o, "ds.load", a[2], a[3], 0)

\* writeMu.Lock(); if removed { unlock; return }
ULock(a) == LET s == a[2] IN
  /\ ac[a].pc = (IF cfg.fetch[s] THEN "u.fetch" ELSE "u.begin") /\ Free(g.wMu[s])
  /\ IF g.removed[s]
     THEN Do(a, [ac[a] EXCEPT !.pc = "u.fin"], g, o, "sub.write.locked", s, 1, 0)
     ELSE Do(a, [ac[a] EXCEPT !.pc = "u.locked"], [g EXCEPT !.wMu[s] = a], o, "sub.write.locked", s, 0, 0)

\* Resolve() wrote the message into the writer; now at Flush()
\* rendering failed (Resolve returned an error): the error is written through the AsyncErrorWriter under writeMu, nothing is flushed
UResolveErr(a) == LET s == a[2] IN
  /\ ac[a].pc = "u.locked" /\ cfg.rerr[s]
  /\ Do(a, [ac[a] EXCEPT !.pc = "we.in", !.cur = s, !.wn = "u.fin"], g, WCall(o, g, "werror", s), "w.werr.enter", s, 0, 0)

UWrite(a) == LET s == a[2] IN
  /\ ac[a].pc = "u.locked" /\ ~cfg.rerr[s]
  /\ Do(a, [ac[a] EXCEPT !.pc = "u.flushing"], g, WCall(o, g, "write", s), "w.flush.enter", s, a[3], 0)

\* Flush() returns; unlock; a failed flush unsubscribes
UFlush(a) == LET s == a[2]  e == a[3] IN
  /\ ac[a].pc = "u.flushing"
  /\ \/ Do(a, [ac[a] EXCEPT !.pc = "u.fin"], [g EXCEPT !.wMu[s] = NoActor, !.lastw[s] = TRUE],
           [WCall(o, g, "flush", s) EXCEPT !.wdata[s] = Append(@, e)], "w.flush", s, e, 1)
     \/ /\ o.nterm < MaxTerm
        /\ Do(a, [ac[a] EXCEPT !.pc = "un.call", !.cur = s, !.ret = "u.fin"], [g EXCEPT !.wMu[s] = NoActor],
              [WCall(o, g, "flush", s) EXCEPT !.nterm = @ + 1], "w.flush", s, e, 0)

UFin(a) ==
  /\ ac[a].pc = "u.fin"
  /\ Do(a, [ac[a] EXCEPT !.pc = "u.end"], g, o, "sub.update.end", a[2], a[3], 0)

-----------------------------------------------------------------------------
(* the start goroutine of instance i *)

GBegin(a) == LET i == Inst0(a) IN
  /\ ac[a].pc = "g.spawned"
  /\ Do(a, [ac[a] EXCEPT !.pc = "g.begin"], g, o, "trig.start.begin", Key(i), i, 0)

\* executeStartupHooks of the creator (blocking, before Source.Start): a failing hook is a failed start without a Start call
GHook(a) == LET i == Inst0(a) IN
  /\ ac[a].pc = "g.begin" /\ cfg.hooks
  /\ Do(a, [ac[a] EXCEPT !.pc = "g.hook"], g, o, "h.hook", i, B(~cfg.hookfail[i]), 0)
GHookRet(a) == LET i == Inst0(a) IN
  /\ ac[a].pc = "g.hook"
  /\ Do(a, [ac[a] EXCEPT !.pc = IF cfg.hookfail[i] THEN "g.fail" ELSE "g.hooked"], g, o, "h.hook.ret", i, B(~cfg.hookfail[i]), 0)

\* the start-up hook of a subscriber that joined an existing trigger runs in a goroutine of its own; if it fails the subscriber gets
\* the error and is unsubscribed
HHook(a) == LET s == a[2] IN
  /\ ac[a].pc = "h.spawned"
  /\ Do(a, [ac[a] EXCEPT !.pc = "h.hook"], g, o, "h.hook", s, B(~cfg.hookfail[s]), 0)
HRet(a) == LET s == a[2] IN
  /\ ac[a].pc = "h.hook"
  /\ Do(a, [ac[a] EXCEPT !.pc = IF cfg.hookfail[s] THEN "h.fail" ELSE "h.end"], g, o, "h.hook.ret", s, B(~cfg.hookfail[s]), 0)
HFail(a) == LET s == a[2] IN
  /\ ac[a].pc = "h.fail"
  /\ Do(a, [ac[a] EXCEPT !.pc = "h.werr", !.cur = s], g, o, "sub.werr.begin", s, 0, 0)
HWerr(a) == LET s == a[2] IN
  /\ ac[a].pc = "h.werr" /\ Free(g.wMu[s])
  /\ IF g.removed[s]
     THEN Do(a, [ac[a] EXCEPT !.pc = "un.begin", !.cur = s, !.ret = "h.end"], g, o, "sub.unsub.begin", s, 0, 0)
     ELSE WerrEnter(a, s, [ac[a] EXCEPT !.pc = "we.in", !.cur = s, !.ret = "h.end", !.wn = "un.call"])

\* Source.Start(cloneCtx, ..., updater)
GStart(a) == LET i == Inst0(a)
                 ok == cfg.start[i] = "ok" \/ (cfg.start[i] = "ctx" /\ ~g.tctx[i]) IN
  /\ ac[a].pc = (IF cfg.hooks THEN "g.hooked" ELSE "g.begin")
  /\ Do(a, [ac[a] EXCEPT !.pc = IF ok THEN "g.ok" ELSE "g.fail"], [g EXCEPT !.srcok[i] = ok],
        [o EXCEPT !.nstart[i] = @ + 1], "h.start", i, B(ok), B(g.tctx[i]))

\* markTriggerInitialized(id): getTrigger [r.mu] ... then (outside the lock) initialized=true, TriggerCountInc
GOk(a) == LET i == Inst0(a)  k == Key(i)  j == g.reg[k] IN
  /\ ac[a].pc = "g.ok" /\ Free(g.resMu)
  /\ IF j = 0 \/ (FixInit /\ j # i)
     THEN Do(a, [ac[a] EXCEPT !.pc = "g.fin"], g, o, "trig.init", k, 0, 0)
     ELSE \* repaired: the rest of the function runs inside r.mu (the trig.init.found hook then sits inside the lock)
          Do(a, [ac[a] EXCEPT !.pc = "g.found", !.cur = j], [g EXCEPT !.resMu = IF FixInit THEN a ELSE @], o, "trig.init.found", k, 0, 0)

GInit(a) == LET i == Inst0(a)  k == Key(i)  j == ac[a].cur IN
  /\ ac[a].pc = "g.found"
  /\ Do(a, [ac[a] EXCEPT !.pc = "g.fin"], [g EXCEPT !.init[j] = TRUE, !.resMu = IF FixInit THEN NoActor ELSE @],
        [Stale(o, "init", i, j) EXCEPT !.trigInc = @ + 1, !.lateInit = @ \/ g.reg[k] # j], "trig.init", k, 1, 0)

\* failed start: writeError to the subscribers of the CAPTURED trigger, then doneTriggerFromUpdater(id)
WeNext(a, todo) == LET i == Inst0(a) IN
  IF todo = {}
  THEN Do(a, [ac[a] EXCEPT !.pc = "dt.begin", !.ret = "g.fin", !.todo = {}], g, o, "trig.done.begin", Key(i), 0, 0)
  ELSE \E s \in todo :
         Do(a, [ac[a] EXCEPT !.pc = "g.werr", !.cur = s, !.todo = todo \ {s}], g, o, "sub.werr.begin", s, 0, 0)

GFail(a) == LET i == Inst0(a) IN
  /\ ac[a].pc = "g.fail"
  /\ WeNext(a, g.isubs[i])

GWerr(a) == LET s == ac[a].cur IN
  /\ ac[a].pc = "g.werr" /\ Free(g.wMu[s])
  /\ IF g.removed[s]
     THEN WeNext(a, ac[a].todo)
     ELSE WerrEnter(a, s, [ac[a] EXCEPT !.pc = "we.in", !.wn = "g.wnext"])

GWnext(a) ==
  /\ ac[a].pc = "g.wnext"
  /\ WeNext(a, ac[a].todo)

GFin(a) == LET i == Inst0(a) IN
  /\ ac[a].pc = "g.fin"
  /\ Do(a, [ac[a] EXCEPT !.pc = "g.end"], g, o, "trig.start.end", Key(i), i, 0)

-----------------------------------------------------------------------------
(* shutdown *)

AtRest(a) == WaitBlocked(a) \/ ac[a].pc \in {"none", "h.end", "x.idle", "x.end", "c.idle0", "c.idle1", "c.end", "s.idle", "s.idle2", "s.end", "u.end", "g.end", "sh.end", "env", "env.end"}
AllRest == \A a \in Actors : AtRest(a)

\* cancel of the resolver context: early (a racing terminator) or final (everything else at rest)
EnvShutdown ==
  /\ ac[ENV].pc = "env"
  /\ \/ /\ o.nterm < MaxTerm
        /\ DoAc([ac EXCEPT ![ENV].pc = "env.end", ![SH].pc = "sh.spawned"], [g EXCEPT !.rctx = TRUE], [o EXCEPT !.nterm = @ + 1], ENV, "h.cmd", 9, 0, 0)
     \/ /\ AllRest
        /\ DoAc([ac EXCEPT ![ENV].pc = "env.end", ![SH].pc = "sh.spawned"], [g EXCEPT !.rctx = TRUE], [o EXCEPT !.final = TRUE], ENV, "h.cmd", 9, 1, 0)

ShSpawned ==
  /\ ac[SH].pc = "sh.spawned"
  /\ Do(SH, [ac[SH] EXCEPT !.pc = "sh.begin"], g, o, "shutdown.begin", 0, 0, 0)

\* shutdownResolver [r.mu across all detaches]
ShBegin == LET m == {k \in Keys : g.reg[k] # 0} IN
  /\ ac[SH].pc = "sh.begin" /\ Free(g.resMu)
  /\ IF g.shut
     THEN Do(SH, [ac[SH] EXCEPT !.pc = "sh.fin"], g, o, "shutdown.marked", 0, 0, 0)
     ELSE Do(SH, [ac[SH] EXCEPT !.pc = IF m = {} THEN "sh.fin" ELSE "sh.loop", !.todo = m, !.ret = "sh.fin"],
             [g EXCEPT !.shut = TRUE, !.resMu = IF m = {} THEN NoActor ELSE SH], o, "shutdown.marked", 1, 0, 0)

ShLoop ==
  /\ ac[SH].pc = "sh.loop"
  /\ \E k \in ac[SH].todo :
       LET r == Detach(g, o, k)  rest == ac[SH].todo \ {k}
           cq == ac[SH].cq \cup r.cq  kq == ac[SH].kq \cup r.kq IN
       Do(SH, [ac[SH] EXCEPT !.pc = IF rest = {} THEN TdPc(cq, kq, "sh.fin") ELSE "sh.loop", !.todo = rest, !.cq = cq, !.kq = kq],
          [r.g EXCEPT !.resMu = IF rest = {} THEN NoActor ELSE SH], r.o, "trig.detach", k, r.flags, 0)

ShFin ==
  /\ ac[SH].pc = "sh.fin"
  /\ Do(SH, [ac[SH] EXCEPT !.pc = "sh.end"], g, o, "shutdown.end", 0, 0, 0)

-----------------------------------------------------------------------------
(* one action of actor a *)

Micro(a) ==
  CASE a[1] = "x" -> XCancel(a[2])
    [] a[1] = "c" -> \/ CWaitUnsub(a[2]) \/ CWaitShutdown(a[2])
                     \/ CCmdSub(a[2]) \/ CSub(a[2]) \/ CAdded(a[2]) \/ CCmdUnsub(a[2]) \/ CCmdRmClient(a[2]) \/ CRet(a[2])
                     \/ RcStep(a) \/ UnCall(a) \/ UnBegin(a) \/ TdNext(a) \/ TdClose(a)
    [] a[1] \in {"s", "d"} ->
                     \/ (\E s \in Subs : SCmdCloseSub(a, s)) \/ CsCall(a)
                     \/ (\E s \in Subs : SCmdUpdSub(a, s)) \/ UpFe(a) \/ FeChk(a) \/ WerrDone(a)
                     \/ SCmdUpdate(a) \/ SCmdComplete(a) \/ SCmdError(a) \/ SCmdHeartbeat(a) \/ SCmdDone(a)
                     \/ SRet(a) \/ UpCall(a) \/ UpWait(a)
                     \/ CeCall(a, "co") \/ CeChk(a, "co") \/ CeStep(a, "co")
                     \/ CeCall(a, "er") \/ CeChk(a, "er") \/ CeStep(a, "er")
                     \/ HbCall(a) \/ HbChk(a) \/ HbStep(a) \/ DnCall(a) \/ DtBegin(a)
                     \/ UnCall(a) \/ UnBegin(a) \/ TdNext(a) \/ TdClose(a)
    [] a[1] = "u" -> \/ WerrDone(a) \/ UBegin(a) \/ UFetch(a) \/ ULock(a) \/ UResolveErr(a) \/ UWrite(a) \/ UFlush(a) \/ UFin(a)
                     \/ UnCall(a) \/ UnBegin(a) \/ TdNext(a) \/ TdClose(a)
    [] a[1] = "h" -> \/ WerrDone(a) \/ HHook(a) \/ HRet(a) \/ HFail(a) \/ HWerr(a) \/ UnCall(a) \/ UnBegin(a) \/ TdNext(a) \/ TdClose(a)
    [] a[1] = "g" -> \/ WerrDone(a) \/ GBegin(a) \/ GHook(a) \/ GHookRet(a) \/ GStart(a) \/ GOk(a) \/ GInit(a) \/ GFail(a) \/ GWerr(a) \/ GWnext(a) \/ GFin(a)
                     \/ DtBegin(a) \/ TdNext(a) \/ TdClose(a)
    [] a[1] = "sh" -> \/ ShSpawned \/ ShBegin \/ ShLoop \/ ShFin \/ TdNext(a) \/ TdClose(a)
    [] a[1] = "env" -> EnvShutdown

Next == \E a \in Actors : Micro(a)

\* the commands of the environment (harness actors at an idle point) - everything else is the code under test
IsCmd == lab'.n = "h.cmd"
Internal(a) == Micro(a) /\ ~IsCmd

Spec == Init /\ [][Next]_vars

\* everything at rest after the resolver was shut down: nothing can happen any more except further (refused) commands
Quiet == AllRest /\ g.rctx /\ ac[SH].pc = "sh.end"

-----------------------------------------------------------------------------
(* explicit enabling condition of the next action of an actor (used by the generator; checked against ENABLED) *)

NeedsW(a) == ac[a].pc \in {"h.werr", "td.close", "co.chk", "er.chk", "hb.chk", "g.werr", "u.fetch", "up.fechk"} \/ (ac[a].pc = "u.begin" /\ ~cfg.fetch[a[2]])
WOf(a) == IF a[1] = "u" THEN a[2] ELSE ac[a].cur
NeedsU(a) == ac[a].pc \in {"up.call", "co.call", "er.call", "hb.call", "dn.call", "cs.call"}
NeedsR(a) == ac[a].pc \in {"c.sub", "rc.call", "un.begin", "dt.begin", "g.ok", "sh.begin"}

\* blocked on a lock / wait group (not: out of budget)
Blocked(a) ==
  \/ WaitBlocked(a)
  \/ NeedsW(a) /\ ~Free(g.wMu[WOf(a)])
  \/ NeedsU(a) /\ ~Free(g.updMu[Inst0(a)])
  \/ NeedsR(a) /\ ~Free(g.resMu)
  \/ ac[a].pc = "up.wait" /\ \E s \in ac[a].fan : ac[U(s, ac[a].e)].pc # "u.end"

-----------------------------------------------------------------------------
(* Properties                                                                 *)

TypeOK ==
  /\ \A k \in Keys : g.reg[k] \in 0..NS
  /\ \A s \in Subs : g.closed[s] \in 0..2
  /\ g.resMu \in Actors \cup {NoActor}

(* ---- C12 ---- *)
\* nothing is written to a subscriber's writer after its completed channel was closed
NoWriteAfterClose == o.wafter = {}
\* completed is closed at most once (a second close is a panic)
ClosedOnce == \A s \in Subs : g.closed[s] <= 1
\* writer calls of one subscriber never overlap: at most one actor is inside a writer call / holds the writer
InWriter(s) == {a \in Actors : (a[1] = "u" /\ a[2] = s /\ ac[a].pc \in {"u.locked", "u.flushing"}) \/ (ac[a].pc = "we.in" /\ ac[a].cur = s)}
WriterExclusive == /\ ~o.overlap
                   /\ \A s \in Subs : Cardinality(InWriter(s)) <= 1 /\ (InWriter(s) # {} => g.wMu[s] \in InWriter(s))
\* delivered = filtered events in emission order, each exactly once, nothing foreign, nothing missing
Range(q) == {q[n] : n \in 1..Len(q)}
Restrict(q, set) == SelectSeq(q, LAMBDA x : x \in set)
OrderedExact ==
  /\ ~o.badbytes
  /\ \A s \in Subs :
       /\ o.wdata[s] = Restrict(o.emitted[Key(s)], Range(o.wdata[s]))      \* order, no duplicates, only own key
       /\ \A e \in Range(o.wdata[s]) : Pass(s, e)
       /\ o.must[s] \subseteq Range(o.wdata[s])

(* ---- C13 ---- *)
SharedIffSameKey ==
  \A s, t \in g.byid : (g.sinst[s] = g.sinst[t]) <=> (Key(s) = Key(t))
\* the upstream is started exactly once per trigger instance
StartOncePerLivePeriod ==
  \A i \in Inst : /\ o.nstart[i] <= 1
                  /\ (ac[G(i)].pc = "g.end" => o.nstart[i] = IF cfg.hooks /\ cfg.hookfail[i] THEN 0 ELSE 1)
                  /\ (o.nstart[i] > 0 => g.created[i])
\* a goroutine of a stale instance never acts on the instance that now owns the id; `initialized` never set after detach
NoStaleInit == "init" \notin o.stale                                   \* markTriggerInitialized(id) of a stale start goroutine
NoStaleDetach == "detach" \notin o.stale                               \* doneTriggerFromUpdater(id) of a stale source / failed stale start
NoStaleUpdater == o.stale \cap {"update", "complete", "error", "heartbeat"} = {}   \* a stale updater reaching the subscribers of its successor
NoLateInit == ~o.lateInit                                              \* initialized + TriggerCountInc after the trigger left the registry
NoCrossTalk == NoStaleInit /\ NoStaleDetach /\ NoStaleUpdater /\ NoLateInit
\* at quiescence nothing is left
Quiescent ==
  Quiet => /\ \A k \in Keys : g.reg[k] = 0
           /\ g.byid = {}
           /\ \A i \in Inst : g.isubs[i] = {}
           /\ o.subInc = o.subDec
           /\ o.trigInc = o.trigDec
           /\ \A s \in o.added : g.closed[s] = 1
           /\ \A s \in Subs \ o.added : g.closed[s] = 0
CancelledWhenDone ==
  Quiet => \A i \in Inst : g.created[i] => g.tctx[i]

\* structural sanity of the registry (r.mu invariants)
RegistryConsistent ==
  Free(g.resMu) =>
     /\ \A s \in g.byid : g.sinst[s] # 0 /\ s \in g.isubs[g.sinst[s]] /\ ~g.removed[s]
     /\ \A k \in Keys : g.reg[k] # 0 => g.isubs[g.reg[k]] # {} /\ Key(g.reg[k]) = k
=============================================================================
