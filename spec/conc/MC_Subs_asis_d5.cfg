CONSTANTS
  NS = 2
  MaxEvents = 1
  MaxTerm = 1
  MaxSrcTerm = 1
  MaxHB = 0
  UseD = FALSE
  StartModes <- StartOK
  FixD5 = FALSE
  FixInit = TRUE
  FixDetach = TRUE
  FixUpdater = TRUE
  CfgOK <- CfgOne
  Features <- FeatNone
SPECIFICATION MCSpec
VIEW View
INVARIANTS TypeOK ClosedOnce WriterExclusive OrderedExact RegistryConsistent NoWriteAfterClose

