------------------------------- MODULE SSEMux -------------------------------
(***************************************************************************)
(* Upstream subscriptions over Server-Sent Events (property C18, SSE part) *)
(*   subscriptionclient/transport/sse_transport.go  (Subscribe, removeConn)*)
(*   subscriptionclient/transport/sse_conn.go       (readLoop, closeConn)  *)
(*                                                                         *)
(* SSE does not multiplex: every subscription is its own HTTP request, so  *)
(* "no cross-talk" means that the streams stay apart although they share   *)
(* the http.Client, and that the bookkeeping (SSETransport.conns, Stats()) *)
(* drops every stream that ended.  Same environment as WSMux: the server   *)
(* holds the response headers and every event behind gates; callers cancel *)
(* at any point.                                                           *)
(*                                                                         *)
(* After a cancel two context.AfterFunc callbacks race in the real code:   *)
(* requestCancel (registered inside Subscribe) and the returned cancel     *)
(* function (run by the caller, as graphql_subscription_client.go does).   *)
(* If the request is torn down first the read loop still reports a         *)
(* connection error to the - cancelled - subscriber; both orders are       *)
(* modelled (ReqCancel / Unsub).                                           *)
(***************************************************************************)
EXTENDS Integers, Sequences, FiniteSets, TLC

CONSTANTS N, MaxFrames, MaxCancels

Subs  == 1..N
Kinds == {"next", "complete", "error"}

VARIABLES
  st,        \* Subs -> [pc, err, ctxc, reqc, unsub, closed, loop, inmap, srv]
  down,      \* Subs -> Seq(frame)  events written by the server and not yet read
  hlog,      \* Subs -> Seq([k, n, id])
  sent,      \* Subs -> Seq([k, n])
  nframes, ncancel

svars == <<st, down, hlog, sent, nframes, ncancel>>

StInit == [pc |-> "idle",       \* idle | requesting | streaming | failed
           err |-> "none",      \* none | ctx | status
           ctxc |-> FALSE,      \* the subscriber's ctx is cancelled
           reqc |-> FALSE,      \* requestCancel() ran
           unsub |-> FALSE,     \* the returned cancel function ran
           closed |-> FALSE,    \* sseConnection.closed
           loop |-> "none",     \* read loop: none | running | erring | exited
           inmap |-> FALSE,     \* member of SSETransport.conns
           srv |-> "none"]      \* none | gate | rejected | streaming | closed (by the server)

SInit ==
  /\ st = [s \in Subs |-> StInit]
  /\ down = [s \in Subs |-> <<>>]
  /\ hlog = [s \in Subs |-> <<>>]
  /\ sent = [s \in Subs |-> <<>>]
  /\ nframes = 0 /\ ncancel = 0

Only(s, r) == st' = [st EXCEPT ![s] = r] /\ UNCHANGED <<down, hlog, sent, nframes, ncancel>>

SCall(s) == st[s].pc = "idle" /\ Only(s, [st[s] EXCEPT !.pc = "requesting", !.srv = "gate"])

SCancel(s) ==
  /\ ~st[s].ctxc /\ st[s].pc # "failed" /\ ncancel < MaxCancels
  /\ st' = [st EXCEPT ![s].ctxc = TRUE]
  /\ ncancel' = ncancel + 1
  /\ UNCHANGED <<down, hlog, sent, nframes>>

\* the request is gone from the server's point of view
ClientGone(s) == st[s].pc = "failed" \/ st[s].reqc \/ st[s].closed
SrvAt(s, x) == st[s].srv = x /\ ~ClientGone(s)

\* client.Do returns
RespOk(s) ==
  /\ st[s].pc = "requesting" /\ st[s].srv = "streaming"
  /\ Only(s, [st[s] EXCEPT !.pc = "streaming", !.inmap = TRUE, !.loop = "running"])
RespRejected(s) ==
  /\ st[s].pc = "requesting" /\ st[s].srv = "rejected"
  /\ Only(s, [st[s] EXCEPT !.pc = "failed", !.err = "status"])
RespCtx(s) ==
  /\ st[s].pc = "requesting" /\ st[s].ctxc
  /\ Only(s, [st[s] EXCEPT !.pc = "failed", !.err = "ctx", !.reqc = TRUE])

\* cleanup(): closed, body closed, onClose -> removeConn(conn)  (by identity)
Cleanup(r) == [r EXCEPT !.closed = TRUE, !.loop = "exited", !.inmap = FALSE]

SDispatch(s) ==
  /\ st[s].loop = "running" /\ ~st[s].closed /\ down[s] # <<>> /\ Head(down[s]).k \in Kinds
  /\ hlog' = [hlog EXCEPT ![s] = Append(@, [k |-> Head(down[s]).k, n |-> Head(down[s]).n, id |-> s])]
  /\ down' = [down EXCEPT ![s] = Tail(@)]
  /\ st' = IF Head(down[s]).k = "next" THEN st ELSE [st EXCEPT ![s] = Cleanup(st[s])]
  /\ UNCHANGED <<sent, nframes, ncancel>>

\* ReadEvent fails: the server ended the stream, or the request was cancelled
ReadFailed(s) == st[s].reqc \/ (down[s] # <<>> /\ Head(down[s]).k = "close")
\* ... the loop looks at closed (twice) and then calls the handler: the consumer may close in between, so the
\* decision (SReadErrDecide) and the callback (SReadErr) are two steps
SReadErrDecide(s) ==
  /\ st[s].loop = "running" /\ ~st[s].closed /\ ReadFailed(s)
  /\ st' = [st EXCEPT ![s].loop = "erring"]
  /\ down' = [down EXCEPT ![s] = <<>>]
  /\ UNCHANGED <<hlog, sent, nframes, ncancel>>
SReadErr(s) ==
  /\ st[s].loop = "erring"
  /\ hlog' = [hlog EXCEPT ![s] = Append(@, [k |-> "connerr", n |-> 0, id |-> 0])]
  /\ st' = [st EXCEPT ![s] = Cleanup(st[s])]
  /\ UNCHANGED <<down, sent, nframes, ncancel>>
\* closed by the consumer: the loop leaves without a word
SReadQuiet(s) ==
  /\ st[s].loop = "running" /\ st[s].closed
  /\ st' = [st EXCEPT ![s] = Cleanup(st[s])]
  /\ down' = [down EXCEPT ![s] = <<>>]
  /\ UNCHANGED <<hlog, sent, nframes, ncancel>>

\* context.AfterFunc(ctx, requestCancel)
ReqCancel(s) ==
  /\ st[s].pc = "streaming" /\ st[s].ctxc /\ ~st[s].reqc
  /\ Only(s, [st[s] EXCEPT !.reqc = TRUE])
\* the returned function: requestCancel(); conn.closeConn(); t.removeConn(conn)
Unsub(s) ==
  /\ st[s].pc = "streaming" /\ st[s].ctxc /\ ~st[s].unsub
  /\ Only(s, [st[s] EXCEPT !.reqc = TRUE, !.closed = TRUE, !.inmap = FALSE, !.unsub = TRUE])

\* ---- server ----------------------------------------------------------------
SrvRespond(s) == SrvAt(s, "gate") /\ Only(s, [st[s] EXCEPT !.srv = "streaming"])
SrvRejectS(s) == SrvAt(s, "gate") /\ Only(s, [st[s] EXCEPT !.srv = "rejected"])
STerminalSent(s) == \E i \in 1..Len(sent[s]) : sent[s][i].k \in {"complete", "error"}
SrvEvent(s, k) ==
  /\ SrvAt(s, "streaming") /\ st[s].pc = "streaming" /\ nframes < MaxFrames /\ ~STerminalSent(s)
  /\ down' = [down EXCEPT ![s] = Append(@, [k |-> k, n |-> Len(sent[s]) + 1])]
  /\ sent' = [sent EXCEPT ![s] = Append(@, [k |-> k, n |-> Len(sent[s]) + 1])]
  /\ nframes' = nframes + 1
  /\ UNCHANGED <<st, hlog, ncancel>>
SrvEnd(s) ==
  /\ SrvAt(s, "streaming") /\ st[s].pc = "streaming"
  /\ st' = [st EXCEPT ![s].srv = "closed"]
  /\ down' = [down EXCEPT ![s] = Append(@, [k |-> "close", n |-> 0])]
  /\ UNCHANGED <<hlog, sent, nframes, ncancel>>

SInternal(s) == RespOk(s) \/ RespRejected(s) \/ RespCtx(s) \/ SDispatch(s) \/ SReadErrDecide(s) \/ SReadErr(s) \/ SReadQuiet(s) \/ ReqCancel(s) \/ Unsub(s)
SEnv == \/ \E s \in Subs : SCall(s) \/ SCancel(s) \/ SrvRespond(s) \/ SrvRejectS(s) \/ SrvEnd(s)
        \/ \E s \in Subs, k \in Kinds : SrvEvent(s, k)
SNext == SEnv \/ \E s \in Subs : SInternal(s)
SSpec == SInit /\ [][SNext]_svars

SBusy(s) ==
  \/ st[s].pc = "requesting" /\ (st[s].srv \in {"streaming", "rejected"} \/ st[s].ctxc)
  \/ st[s].loop = "running" /\ (st[s].closed \/ st[s].reqc \/ down[s] # <<>>)
  \/ st[s].loop = "erring"
  \/ st[s].pc = "streaming" /\ st[s].ctxc /\ (~st[s].reqc \/ ~st[s].unsub)
SQuiescent == \A s \in Subs : ~SBusy(s)

-----------------------------------------------------------------------------
SFrames(s) == SelectSeq(hlog[s], LAMBDA m : m.k # "connerr")
SRouted ==
  \A s \in Subs : /\ Len(SFrames(s)) <= Len(sent[s])
                  /\ \A i \in 1..Len(SFrames(s)) : SFrames(s)[i].id = s /\ SFrames(s)[i].k = sent[s][i].k /\ SFrames(s)[i].n = sent[s][i].n
SNothingAfterTerminal ==
  \A s \in Subs : \A i \in 1..Len(hlog[s]) : hlog[s][i].k \in {"complete", "error", "connerr"} => i = Len(hlog[s])
\* a stream ends only through its own terminal event, its own server or its own subscriber
SIsolated ==
  \A s \in Subs : (st[s].loop = "exited" \/ st[s].pc = "failed")
     => \/ st[s].ctxc \/ st[s].srv \in {"closed", "rejected"}
        \/ \E i \in 1..Len(hlog[s]) : hlog[s][i].k \in {"complete", "error"}
\* the transport's map holds exactly the streams that are still being read
SNoLeak == SQuiescent => \A s \in Subs : st[s].inmap <=> (st[s].loop = "running")
=============================================================================
