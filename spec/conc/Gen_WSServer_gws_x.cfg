CONSTANTS
  Proto = "gws"
  Impl = "pinned"
  Echo = TRUE
  MaxLen = 8
  Fixes = {}
  Syms = {"init", "sub1q", "sub1s", "sub2q", "sub1dq", "sub2ds", "comp1"}
  EngWhats = {"data", "fin", "error", "result", "qflush"}
  Extras = FALSE
  MaxIn = 3
  MaxEng = 2
  PreInit = FALSE
SPECIFICATION GenSpec
CONSTRAINT GenConstraint
CHECK_DEADLOCK FALSE
