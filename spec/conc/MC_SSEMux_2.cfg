CONSTANTS
  N = 2
  MaxFrames = 3
  MaxCancels = 2
SPECIFICATION SSpec
INVARIANTS SRouted SNothingAfterTerminal SIsolated SNoLeak
CHECK_DEADLOCK FALSE
