--------------------------- MODULE SFS_IndInv_neg ---------------------------
(***************************************************************************)
(* Negative control for SFS_IndInv_proofs (run by check_sfi_indinv.sh      *)
(* --neg).  The step obligations that carry NoForeignCancel / Transparent  *)
(* through AfterWokeShared (a follower takes over the leader's response or *)
(* error) are stated twice: WITH the fact Fixed = TRUE (must be proved)    *)
(* and WITHOUT it (must be rejected: for Fixed = FALSE the step is false - *)
(* a live follower takes over the cancelled leader's context error, TLC    *)
(* exhibits the NoForeignCancel violation with MC_SFS_3_pinned.cfg).        *)
(*   *_Fix / *_NoFix          the whole request-level conjunct of IndInv   *)
(*   NFC_Fix / NFC_NoFix      just the NoForeignCancel consequence: a      *)
(*                            request that returns un-cancelled does not    *)
(*                            return "otherdata"                            *)
(* Expected tlapm outcome: exactly 2 obligations fail (the *_NoFix ones).   *)
(* "Not provable" is weaker than "false"; the falsity itself is TLC's job.  *)
(***************************************************************************)
EXTENDS SFS_IndInv_proofs

LEMMA AfterWokeShared_Fix ==
  ASSUME IndInv, NEW r \in Req, AfterWokeShared(r)
  PROVE  \A q \in Req : ReqInv(q)'
  BY NoneNotReq, FixedTrue, SMTT(10) DEF IndInv, TypeInv, ReqInv, TableInv, AfterWokeShared, PCs, Outs, Kinds,
     FollowerPcs, LeaderPcs, GoodOut, GoodKind, Key, Work, DSResult, OutOf

LEMMA AfterWokeShared_NoFix ==
  ASSUME IndInv, NEW r \in Req, AfterWokeShared(r)
  PROVE  \A q \in Req : ReqInv(q)'
  BY NoneNotReq, SMTT(10) DEF IndInv, TypeInv, ReqInv, TableInv, AfterWokeShared, PCs, Outs, Kinds,
     FollowerPcs, LeaderPcs, GoodOut, GoodKind, Key, Work, DSResult, OutOf

LEMMA NFC_Fix ==
  ASSUME IndInv, NEW r \in Req, AfterWokeShared(r)
  PROVE  (pc'[r] = "returned" /\ ~cancelled'[r]) => out'[r] # "otherdata"
  BY NoneNotReq, FixedTrue, SMTT(10) DEF IndInv, TypeInv, ReqInv, TableInv, AfterWokeShared, PCs, Outs, Kinds,
     FollowerPcs, LeaderPcs, GoodOut, GoodKind, Key, Work, DSResult, OutOf

LEMMA NFC_NoFix ==
  ASSUME IndInv, NEW r \in Req, AfterWokeShared(r)
  PROVE  (pc'[r] = "returned" /\ ~cancelled'[r]) => out'[r] # "otherdata"
  BY NoneNotReq, SMTT(10) DEF IndInv, TypeInv, ReqInv, TableInv, AfterWokeShared, PCs, Outs, Kinds,
     FollowerPcs, LeaderPcs, GoodOut, GoodKind, Key, Work, DSResult, OutOf
=============================================================================
