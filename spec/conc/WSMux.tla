------------------------------- MODULE WSMux -------------------------------
(***************************************************************************)
(* Multiplexing of upstream GraphQL subscriptions over shared WebSocket    *)
(* connections (property C18)                                              *)
(*   v2/pkg/engine/datasource/graphql_datasource/subscriptionclient/       *)
(*     transport/ws_transport.go  (getOrDial, dial, removeConn)            *)
(*     transport/ws_conn.go       (subscribe, removeSub, unsubscribe,      *)
(*                                 readLoop, dispatch, shutdown)           *)
(*   + the behaviour of coder/websocket writes under a cancelled context   *)
(*                                                                         *)
(* Grain: one action per critical section of the code (t.mu, subsMu) or    *)
(* per blocking operation (dial, protocol init, select on result.done,     *)
(* protocol write, read of one frame).  The environment is the upstream    *)
(* server (holds the upgrade response, the connection_ack and every frame  *)
(* behind gates) and the callers (Subscribe calls, context cancellation).  *)
(* No source hook is used: the environment actions and the observations    *)
(* (Subscribe returns, handler callbacks, frames seen by the server,       *)
(* Stats()) are what the harness logs; everything else is internal.        *)
(*                                                                         *)
(* With Fixes = {} the module describes the code AS IT WAS PINNED:         *)
(*  - the dialling subscriber dials with its own ctx and publishes its     *)
(*    error to every waiter (DialCtx, WakeDoneErr: blame "foreign_dial"),  *)
(*  - the subscribe frame is written with the subscriber's ctx; when that  *)
(*    ctx is already cancelled coder/websocket closes the whole socket     *)
(*    (WriteCancelKill*: blame "foreign_write"),                           *)
(*  - a connection found in the map may be closed by the time the new      *)
(*    subscriber registers (RegisterClosed: blame "foreign_close" when the *)
(*    last subscriber left because it was cancelled),                      *)
(*  - removeConn deletes by key and a finished dial is stored without      *)
(*    looking at closed (ShutEnd, PubMapOk).                               *)
(* Fixes names the repairs that are in the tree (fixes/C18-*.patch):       *)
(*  "dial"  a waiter whose own ctx is alive starts over when the shared    *)
(*          dial failed while the dialler was going away; the maps are     *)
(*          updated before close(result.done),                             *)
(*  "write" subscribe gives up before writing when its ctx is done and     *)
(*          writes with a deadline derived from the connection's ctx,      *)
(*  "close" Subscribe looks for another connection when the one it got is  *)
(*          closed before it could register,                               *)
(*  "map"   removeConn compares identities, a closed connection is not     *)
(*          published.                                                     *)
(*  "ping"  sendPing records the send time before it writes the ping, so   *)
(*          a pong that is processed at once cannot look older than it.    *)
(* With all of them every property below holds.                            *)
(***************************************************************************)
EXTENDS Integers, Sequences, FiniteSets, TLC

CONSTANTS N,           \* subscribers
          NK,          \* option tuples (connection keys)
          MaxConn,     \* connection instances (dials)
          MaxFrames,   \* frames the upstream sends in total
          MaxCancels,  \* context cancellations
          CfgSet,      \* the configurations to start from: Configs (base) or ConfigsX (+ un-encodable request, pings)
          Fixes        \* subset of {"dial", "write", "close", "map", "ping"}: repairs present in the code ({} = pinned code)

Subs  == 1..N
Keys  == 1..NK
Conn  == 1..MaxConn
None  == 0
Kinds == {"next", "complete", "error"}
\* top-level field sets of a next payload: data | data:null + errors | data + extensions ("-" for complete / error frames)
Variants == {"d", "de", "dx"}
CtxRes == {"ctx", "initctx"}                 \* dial results caused by the dialler's own context
Foreign == {"foreign_dial", "foreign_write", "foreign_close"}
Fix(x) == x \in Fixes

VARIABLES
  cfg,       \* [key: Subs -> Keys, idle: "zero"|"pos", bad: Subs -> BOOLEAN, ping: BOOLEAN]  (fixed after Init)
             \*   bad[s]: the request of s cannot be encoded (invalid json.RawMessage variables): its subscribe frame is
             \*           never written although the socket is healthy;  ping: client pings with a pong timeout are on
  sub,       \* Subs -> [pc, err, blame, ctxc, cpend, tgt, unsub]
  conn,      \* Conn -> connection / dial record (see ConnInit)
  subs,      \* Conn -> [wire id (= creating subscriber) -> handler (subscriber) | None]   wsConnection.subs
  dialing,   \* Keys -> Conn | None          WSTransport.dialing
  conns,     \* Keys -> Conn | None          WSTransport.conns
  down,      \* Conn -> Seq(frame)           server -> client, sent and not yet read by the read loop
  hlog,      \* Subs -> Seq([k, n, id])      what each handler was called with
  sent,      \* Subs -> Seq([k, n])          what the upstream sent for the subscription of s
  nconn, nframes, ncancel

vars == <<cfg, sub, conn, subs, dialing, conns, down, hlog, sent, nconn, nframes, ncancel>>

DenseKeys(c) == \A s \in Subs : c.key[s] = 1 \/ \E q \in 1..(s - 1) : c.key[q] = c.key[s] - 1
NoBad == [s \in Subs |-> FALSE]
Configs ==
  { c \in [key: [Subs -> Keys], idle: {"zero", "pos"}, bad: {NoBad}, ping: {FALSE}, hold: {FALSE}, reent: {FALSE}] : DenseKeys(c) }
\* + at most one subscriber with an un-encodable request; pings only with idle = zero and encodable requests
ConfigsX ==
\* hold: the upstream may hold back its answer to the client's close frame (SrvHoldClose): shutdown() stays between
\*       "closed" and "left the pool";  reent: handlers may cancel their own subscription or subscribe another
\*       subscriber of the same option tuple from inside the callback.  One extra at a time, the last three with idle = zero.
  { c \in [key: [Subs -> Keys], idle: {"zero", "pos"}, bad: [Subs -> BOOLEAN], ping: BOOLEAN, hold: BOOLEAN, reent: BOOLEAN] :
       /\ DenseKeys(c)
       /\ Cardinality({s \in Subs : c.bad[s]}) <= 1
       /\ Cardinality({x \in {"bad", "ping", "hold", "reent"} :
                          \/ (x = "bad" /\ c.bad # NoBad) \/ (x = "ping" /\ c.ping)
                          \/ (x = "hold" /\ c.hold) \/ (x = "reent" /\ c.reent)}) <= 1
       /\ (c.ping \/ c.hold \/ c.reent) => c.idle = "zero" }

SubInit  == [pc |-> "idle", err |-> "none", blame |-> "none", ctxc |-> FALSE, cpend |-> FALSE, tgt |-> None, unsub |-> FALSE]
ConnInit == [key |-> None, dialler |-> None,
             stage |-> "none",      \* client side of the dial: none | req | init | ok | failed
             res |-> "none",        \* dialResult: none | ok | ctx | initctx | dial | init
             cgone |-> FALSE,       \* the dialler's ctx was done when the dial returned (dialResult.callerGone)
             done |-> FALSE,        \* close(result.done) happened
             pub |-> FALSE,         \* map update after the dial happened
             closed |-> FALSE,      \* wsConnection.closed
             sock |-> "none",       \* none | open | closed (closed by the client side)
             cause |-> "none",      \* why it was closed: upstream | idle | kill
             byCancel |-> FALSE,    \* the subscription that left it empty was a cancelled one
             timers |-> 0,          \* pending idle timers (time.AfterFunc)
             shut |-> "no",         \* shutdown(): no | notify | done
             pending |-> {},        \* handlers shutdown() still has to call
             srv |-> "none",        \* server side: none | gate_up | rejected | gate_ack | open | closed (by the server)
             acked |-> FALSE,
             muted |-> FALSE,       \* the server stopped answering pings
             held |-> FALSE,        \* the server holds back everything it would write (in particular its close frame)
             code |-> 0,            \* close code the server sent (0 = none / abrupt)
             ssubs |-> {}]          \* ids the server received a subscribe for

Init ==
  /\ cfg \in CfgSet
  /\ sub = [s \in Subs |-> SubInit]
  /\ conn = [c \in Conn |-> ConnInit]
  /\ subs = [c \in Conn |-> [i \in Subs |-> None]]
  /\ dialing = [k \in Keys |-> None]
  /\ conns = [k \in Keys |-> None]
  /\ down = [c \in Conn |-> <<>>]
  /\ hlog = [s \in Subs |-> <<>>]
  /\ sent = [s \in Subs |-> <<>>]
  /\ nconn = 0 /\ nframes = 0 /\ ncancel = 0

Key(s) == cfg.key[s]
Handlers(c) == {subs[c][i] : i \in Subs} \ {None}
NoSubs(c) == \A i \in Subs : subs[c][i] = None
EmptyWithout(c, id) == \A i \in Subs : i # id => subs[c][i] = None
ClearSubs(c) == [subs EXCEPT ![c] = [i \in Subs |-> None]]

\* shutdown() up to the swap of the subscription map, applied to record r
ShutRec(r, why, P) ==
  IF r.closed THEN r
  ELSE [r EXCEPT !.closed = TRUE, !.sock = "closed", !.cause = IF r.cause = "kill" THEN "kill" ELSE why,
                 !.pending = P, !.shut = "notify"]

\* connection record after removeSub(id) (ws_conn.go 121-141)
RemoveRec(c, id, byc) ==
  IF EmptyWithout(c, id)
  THEN IF cfg.idle = "zero"
       THEN ShutRec([conn[c] EXCEPT !.byCancel = byc], "idle", {})
       ELSE [conn[c] EXCEPT !.timers = @ + 1, !.byCancel = byc]
  ELSE conn[c]

CauseBlame(c, s) ==
  IF sub[s].ctxc THEN "own"
  ELSE CASE conn[c].cause = "kill" -> "foreign_write"
         [] conn[c].cause = "idle" -> IF conn[c].byCancel THEN "foreign_close" ELSE "race_close"
         [] conn[c].cause = "pingrace" -> "spurious_ping"
         [] OTHER -> "upstream"

Fail(s, e, b) == [sub EXCEPT ![s].pc = "failed", ![s].err = e, ![s].blame = IF sub[s].blame = "none" THEN b ELSE sub[s].blame]

-----------------------------------------------------------------------------
(* Callers                                                                  *)

Call(s) ==
  /\ sub[s].pc = "idle"
  /\ sub' = [sub EXCEPT ![s].pc = "start"]
  /\ UNCHANGED <<cfg, conn, subs, dialing, conns, down, hlog, sent, nconn, nframes, ncancel>>

Cancel(s) ==
  /\ ~sub[s].ctxc /\ sub[s].pc # "failed" /\ ncancel < MaxCancels
  /\ sub' = [sub EXCEPT ![s].ctxc = TRUE]
  /\ ncancel' = ncancel + 1
  /\ UNCHANGED <<cfg, conn, subs, dialing, conns, down, hlog, sent, nconn, nframes>>

\* getOrDial 192-219 under t.mu: reuse / join the dial in progress / become the dialler
GetOrDial(s) ==
  /\ sub[s].pc = "start"
  /\ LET k == Key(s) IN
     IF conns[k] # None /\ ~conn[conns[k]].closed
     THEN /\ sub' = [sub EXCEPT ![s].pc = "haveconn", ![s].tgt = conns[k]]
          /\ UNCHANGED <<conn, dialing, nconn>>
     ELSE IF dialing[k] # None
     THEN /\ sub' = [sub EXCEPT ![s].pc = "waiting", ![s].tgt = dialing[k]]
          /\ UNCHANGED <<conn, dialing, nconn>>
     ELSE /\ nconn < MaxConn
          /\ nconn' = nconn + 1
          /\ dialing' = [dialing EXCEPT ![k] = nconn + 1]
          /\ sub' = [sub EXCEPT ![s].pc = "dialling", ![s].tgt = nconn + 1]
          \* an already cancelled ctx never reaches the server (http.Transport checks ctx first)
          /\ conn' = [conn EXCEPT ![nconn + 1].key = k, ![nconn + 1].dialler = s, ![nconn + 1].stage = "req",
                                  ![nconn + 1].srv = IF sub[s].ctxc THEN "none" ELSE "gate_up"]
  /\ UNCHANGED <<cfg, subs, conns, down, hlog, sent, nframes, ncancel>>

-----------------------------------------------------------------------------
(* The dial (runs on the dialler's goroutine with the dialler's ctx), 238-309 *)

DialStage(c, st, r) ==
  /\ conn' = [conn EXCEPT ![c].stage = st, ![c].res = r, ![c].sock = IF r = "ok" THEN "open" ELSE conn[c].sock,
                          ![c].cgone = IF st \in {"ok", "failed"} THEN sub[conn[c].dialler].ctxc ELSE FALSE]
  /\ UNCHANGED <<cfg, sub, subs, dialing, conns, down, hlog, sent, nconn, nframes, ncancel>>

DialUpgraded(c)   == conn[c].stage = "req" /\ conn[c].srv = "gate_ack" /\ DialStage(c, "init", "none")
DialRejected(c)   == conn[c].stage = "req" /\ conn[c].srv = "rejected" /\ DialStage(c, "failed", "dial")
DialAcked(c)      == conn[c].stage = "init" /\ conn[c].acked /\ DialStage(c, "ok", "ok")
DialInitFailed(c) == conn[c].stage = "init" /\ ~conn[c].acked /\ conn[c].srv = "closed" /\ DialStage(c, "failed", "init")
DialCtx(c)        == /\ conn[c].stage \in {"req", "init"} /\ sub[conn[c].dialler].ctxc
                     /\ DialStage(c, "failed", IF conn[c].stage = "req" THEN "ctx" ELSE "initctx")

\* result.conn/err set, close(result.done) and the map update under t.mu: pinned code closes done first,
\* the "dial" repair updates the maps first
DialOver(c) == conn[c].stage \in {"ok", "failed"}
MayPubDone(c) == DialOver(c) /\ ~conn[c].done /\ (Fix("dial") => conn[c].pub)
MayPubMap(c)  == DialOver(c) /\ ~conn[c].pub /\ (~Fix("dial") => conn[c].done)

PubDone(c) ==
  /\ MayPubDone(c)
  /\ conn' = [conn EXCEPT ![c].done = TRUE]
  /\ UNCHANGED <<cfg, sub, subs, dialing, conns, down, hlog, sent, nconn, nframes, ncancel>>

\* 227-235 under t.mu: delete(dialing,key); conns[key] = conn -- whatever state conn is in by now
PubMapOk(c) ==
  /\ MayPubMap(c) /\ conn[c].res = "ok"
  /\ dialing' = [dialing EXCEPT ![conn[c].key] = None]
  /\ conns' = IF Fix("map") /\ conn[c].closed THEN conns ELSE [conns EXCEPT ![conn[c].key] = c]
  /\ conn' = [conn EXCEPT ![c].pub = TRUE]
  /\ sub' = [sub EXCEPT ![conn[c].dialler].pc = "haveconn"]
  /\ UNCHANGED <<cfg, subs, down, hlog, sent, nconn, nframes, ncancel>>

PubMapErr(c) ==
  /\ MayPubMap(c) /\ conn[c].res # "ok"
  /\ dialing' = [dialing EXCEPT ![conn[c].key] = None]
  /\ conn' = [conn EXCEPT ![c].pub = TRUE]
  /\ sub' = Fail(conn[c].dialler, conn[c].res, IF conn[c].res \in CtxRes THEN "own" ELSE "upstream")
  /\ UNCHANGED <<cfg, subs, conns, down, hlog, sent, nconn, nframes, ncancel>>

-----------------------------------------------------------------------------
(* Waiters: select { <-ctx.Done() ; <-result.done }  202-215                 *)

WakeDoneOk(s) ==
  /\ sub[s].pc = "waiting" /\ conn[sub[s].tgt].done /\ conn[sub[s].tgt].res = "ok"
  /\ sub' = [sub EXCEPT ![s].pc = "haveconn"]
  /\ UNCHANGED <<cfg, conn, subs, dialing, conns, down, hlog, sent, nconn, nframes, ncancel>>

\* "dial": result.callerGone && ctx.Err() == nil -> continue
RetryDial(s) == Fix("dial") /\ ~sub[s].ctxc /\ conn[sub[s].tgt].cgone
\* "close": errors.Is(err, ErrConnectionClosed) && ctx.Err() == nil -> continue (the code gives up after 3 attempts)
RetryClose(s) == Fix("close") /\ ~sub[s].ctxc

\* the waiter is handed the dialler's error -- including the dialler's own context.Canceled
WakeDoneErr(s) ==
  /\ sub[s].pc = "waiting" /\ conn[sub[s].tgt].done /\ conn[sub[s].tgt].res # "ok"
  /\ ~RetryDial(s)
  /\ LET r == conn[sub[s].tgt].res IN
     sub' = Fail(s, r, IF r \in CtxRes THEN (IF sub[s].ctxc THEN "own" ELSE "foreign_dial") ELSE "upstream")
  /\ UNCHANGED <<cfg, conn, subs, dialing, conns, down, hlog, sent, nconn, nframes, ncancel>>

WakeDoneRetry(s) ==
  /\ sub[s].pc = "waiting" /\ conn[sub[s].tgt].done /\ conn[sub[s].tgt].res # "ok" /\ RetryDial(s)
  /\ sub' = [sub EXCEPT ![s].pc = "start", ![s].tgt = None]
  /\ UNCHANGED <<cfg, conn, subs, dialing, conns, down, hlog, sent, nconn, nframes, ncancel>>

WakeCtx(s) ==
  /\ sub[s].pc = "waiting" /\ sub[s].ctxc
  /\ sub' = Fail(s, "ctx", "own")
  /\ UNCHANGED <<cfg, conn, subs, dialing, conns, down, hlog, sent, nconn, nframes, ncancel>>

-----------------------------------------------------------------------------
(* wsConnection.subscribe  84-119                                            *)

RegisterOk(s) ==
  /\ sub[s].pc = "haveconn" /\ ~conn[sub[s].tgt].closed
  /\ subs' = [subs EXCEPT ![sub[s].tgt][s] = s]
  /\ sub' = [sub EXCEPT ![s].pc = "registered"]
  /\ UNCHANGED <<cfg, conn, dialing, conns, down, hlog, sent, nconn, nframes, ncancel>>

RegisterClosed(s) ==
  /\ sub[s].pc = "haveconn" /\ conn[sub[s].tgt].closed /\ ~RetryClose(s)
  /\ sub' = Fail(s, "closed", CauseBlame(sub[s].tgt, s))
  /\ UNCHANGED <<cfg, conn, subs, dialing, conns, down, hlog, sent, nconn, nframes, ncancel>>

RegisterRetry(s) ==
  /\ sub[s].pc = "haveconn" /\ conn[sub[s].tgt].closed /\ RetryClose(s)
  /\ sub' = [sub EXCEPT ![s].pc = "start", ![s].tgt = None]
  /\ UNCHANGED <<cfg, conn, subs, dialing, conns, down, hlog, sent, nconn, nframes, ncancel>>

\* protocol.Subscribe(ctx+writeTimeout): the frame reaches the server
WriteOk(s) ==
  /\ sub[s].pc = "registered" /\ conn[sub[s].tgt].sock = "open" /\ ~cfg.bad[s]
  /\ ~sub[s].ctxc \/ sub[s].cpend \/ Fix("write")
  /\ conn' = [conn EXCEPT ![sub[s].tgt].ssubs = @ \cup {s}]
  /\ sub' = [sub EXCEPT ![s].pc = "ok"]
  /\ UNCHANGED <<cfg, subs, dialing, conns, down, hlog, sent, nconn, nframes, ncancel>>

\* the socket is gone: the write fails, removeSub(id)
\* the request cannot be encoded: nothing is written, the socket stays healthy, removeSub(id)
WriteEncodeFail(s) ==
  /\ sub[s].pc = "registered" /\ cfg.bad[s]
  /\ LET c == sub[s].tgt IN
       /\ subs' = [subs EXCEPT ![c][s] = None]
       /\ conn' = [conn EXCEPT ![c] = RemoveRec(c, s, sub[s].ctxc)]
       /\ sub' = Fail(s, "encode", "own")
  /\ UNCHANGED <<cfg, dialing, conns, down, hlog, sent, nconn, nframes, ncancel>>

WriteDead(s) ==
  /\ sub[s].pc = "registered" /\ conn[sub[s].tgt].sock # "open" /\ ~cfg.bad[s]
  /\ LET c == sub[s].tgt IN
       /\ subs' = [subs EXCEPT ![c][s] = None]
       /\ conn' = [conn EXCEPT ![c] = RemoveRec(c, s, sub[s].ctxc)]
       /\ sub' = Fail(s, IF sub[s].ctxc THEN "ctx" ELSE "write", CauseBlame(c, s))
  /\ UNCHANGED <<cfg, dialing, conns, down, hlog, sent, nconn, nframes, ncancel>>

\* own ctx already cancelled, the select in coder/websocket's lock picks ctx.Done(): harmless failure
WriteCancelSafe(s) ==
  /\ sub[s].pc = "registered" /\ conn[sub[s].tgt].sock = "open" /\ sub[s].ctxc
  /\ LET c == sub[s].tgt IN
       /\ subs' = [subs EXCEPT ![c][s] = None]
       /\ conn' = [conn EXCEPT ![c] = RemoveRec(c, s, TRUE)]
       /\ sub' = Fail(s, "ctx", "own")
  /\ UNCHANGED <<cfg, dialing, conns, down, hlog, sent, nconn, nframes, ncancel>>

\* own ctx already cancelled, the lock is acquired: setupWriteTimeout(ctx) -> context.AfterFunc fires at once and
\* closes the SHARED socket; the write itself may or may not have gone through
WriteCancelKillOk(s) ==
  /\ ~Fix("write") /\ ~cfg.bad[s]
  /\ sub[s].pc = "registered" /\ conn[sub[s].tgt].sock = "open" /\ sub[s].ctxc
  /\ LET c == sub[s].tgt IN
       /\ conn' = [conn EXCEPT ![c].sock = "closed", ![c].cause = "kill", ![c].ssubs = @ \cup {s}]
       /\ sub' = [sub EXCEPT ![s].pc = "ok"]
  /\ UNCHANGED <<cfg, subs, dialing, conns, down, hlog, sent, nconn, nframes, ncancel>>

WriteCancelKillErr(s) ==
  /\ ~Fix("write") /\ ~cfg.bad[s]
  /\ sub[s].pc = "registered" /\ conn[sub[s].tgt].sock = "open" /\ sub[s].ctxc
  /\ LET c == sub[s].tgt
         r == [RemoveRec(c, s, TRUE) EXCEPT !.sock = "closed", !.cause = "kill"] IN
       /\ subs' = [subs EXCEPT ![c][s] = None]
       /\ conn' = [conn EXCEPT ![c] = r]
       /\ sub' = Fail(s, "ctx", "own")
  /\ UNCHANGED <<cfg, dialing, conns, down, hlog, sent, nconn, nframes, ncancel>>

\* the cancel function returned by Subscribe, called once the subscriber's ctx is done (unsubscribe 143-160)
Unsubscribe(s) ==
  /\ sub[s].pc = "ok" /\ sub[s].ctxc /\ ~sub[s].unsub
  /\ LET c == sub[s].tgt IN
       IF subs[c][s] # None
       THEN /\ subs' = [subs EXCEPT ![c][s] = None]
            /\ conn' = [conn EXCEPT ![c] = RemoveRec(c, s, TRUE)]
       ELSE UNCHANGED <<subs, conn>>
  /\ sub' = [sub EXCEPT ![s].unsub = TRUE]
  /\ UNCHANGED <<cfg, dialing, conns, down, hlog, sent, nconn, nframes, ncancel>>

-----------------------------------------------------------------------------
(* read loop, dispatch, shutdown  162-235                                    *)

ReadLive(c) == conn[c].stage = "ok" /\ ~conn[c].closed

\* one frame -> the handler registered under its id; complete/error remove that id only
DispatchTo(c) ==
  /\ ReadLive(c) /\ conn[c].sock = "open" /\ down[c] # <<>>
  /\ Head(down[c]).k \in Kinds /\ subs[c][Head(down[c]).id] # None
  /\ LET f == Head(down[c])
         h == subs[c][f.id] IN
       /\ hlog' = [hlog EXCEPT ![h] = Append(@, [k |-> f.k, n |-> f.n, id |-> f.id, v |-> f.v])]
       /\ IF f.k \in {"complete", "error"}
          THEN /\ subs' = [subs EXCEPT ![c][f.id] = None]
               /\ conn' = [conn EXCEPT ![c] = RemoveRec(c, f.id, FALSE)]
          ELSE UNCHANGED <<subs, conn>>
       \* re-entrant handler: it cancels its own subscription / calls Subscribe for f.sp from inside the callback
       /\ sub' = [x \in Subs |->
                   IF x = h /\ f.sc THEN [sub[x] EXCEPT !.ctxc = TRUE]
                   ELSE IF x = f.sp /\ x # h /\ sub[x].pc = "idle" THEN [sub[x] EXCEPT !.pc = "start"]
                   ELSE sub[x]]
  /\ down' = [down EXCEPT ![c] = Tail(@)]
  /\ UNCHANGED <<cfg, dialing, conns, sent, nconn, nframes, ncancel>>

DispatchDrop(c) ==
  /\ ReadLive(c) /\ conn[c].sock = "open" /\ down[c] # <<>>
  /\ Head(down[c]).k \in Kinds /\ subs[c][Head(down[c]).id] = None
  /\ down' = [down EXCEPT ![c] = Tail(@)]
  /\ UNCHANGED <<cfg, sub, conn, subs, dialing, conns, hlog, sent, nconn, nframes, ncancel>>

ShutBegin(c, why) ==
  /\ conn' = [conn EXCEPT ![c] = ShutRec(conn[c], why, Handlers(c))]
  /\ subs' = ClearSubs(c)

\* the upstream dropped the connection
ReadClose(c) ==
  /\ ReadLive(c) /\ conn[c].sock = "open" /\ down[c] # <<>> /\ Head(down[c]).k = "close"
  /\ ShutBegin(c, "upstream")
  /\ down' = [down EXCEPT ![c] = <<>>]
  /\ UNCHANGED <<cfg, sub, dialing, conns, hlog, sent, nconn, nframes, ncancel>>

\* the ping loop found the pong overdue: closeConn()
PingExpire(c) ==
  /\ ReadLive(c) /\ conn[c].sock = "open" /\ conn[c].muted
  /\ ShutBegin(c, "upstream")
  /\ down' = [down EXCEPT ![c] = <<>>]
  /\ UNCHANGED <<cfg, sub, dialing, conns, hlog, sent, nconn, nframes, ncancel>>

\* pinned code: sendPing stores lastPingSentAt AFTER the ping was written; an upstream that answers at once has its pong
\* processed (lastPongAt) before that, the pong then looks older than the ping and one interval later the HEALTHY
\* connection is closed as if the pong were overdue.  Like a timer this can happen whenever pings are on.
PingSpurious(c) ==
  /\ cfg.ping /\ ~Fix("ping")
  /\ ReadLive(c) /\ conn[c].sock = "open" /\ conn[c].pub /\ ~conn[c].muted
  /\ ShutBegin(c, "pingrace")
  /\ down' = [down EXCEPT ![c] = <<>>]
  /\ UNCHANGED <<cfg, sub, dialing, conns, hlog, sent, nconn, nframes, ncancel>>

\* the socket was closed under the read loop (WriteCancelKill*)
ReadKilled(c) ==
  /\ ReadLive(c) /\ conn[c].sock = "closed"
  /\ ShutBegin(c, "kill")
  /\ down' = [down EXCEPT ![c] = <<>>]
  /\ UNCHANGED <<cfg, sub, dialing, conns, hlog, sent, nconn, nframes, ncancel>>

\* shutdown() first performs the WebSocket close handshake (conn.Close waits for the peer's close frame); while a
\* live upstream holds that back, the connection is closed but neither are handlers told nor does it leave the pool
Blocked(c) == conn[c].held /\ conn[c].srv = "open"

ShutNotify(c, h) ==
  /\ conn[c].shut = "notify" /\ h \in conn[c].pending /\ ~Blocked(c)
  /\ hlog' = [hlog EXCEPT ![h] = Append(@, [k |-> "connerr", n |-> conn[c].code, id |-> 0, v |-> "-"])]
  /\ conn' = [conn EXCEPT ![c].pending = @ \ {h}]
  /\ sub' = [sub EXCEPT ![h].blame = IF @ = "none" THEN CauseBlame(c, h) ELSE @]
  /\ UNCHANGED <<cfg, subs, dialing, conns, down, sent, nconn, nframes, ncancel>>

\* onEmpty -> removeConn(key): deletes whatever is stored under the key
ShutEnd(c) ==
  /\ conn[c].shut = "notify" /\ conn[c].pending = {} /\ ~Blocked(c)
  /\ conn' = [conn EXCEPT ![c].shut = "done"]
  /\ conns' = IF Fix("map") /\ conns[conn[c].key] # c THEN conns ELSE [conns EXCEPT ![conn[c].key] = None]
  /\ UNCHANGED <<cfg, sub, subs, dialing, down, hlog, sent, nconn, nframes, ncancel>>

\* time.AfterFunc(idleTimeout): closes when the map is empty *now*
IdleFire(c) ==
  /\ conn[c].timers > 0
  /\ conn' = [conn EXCEPT ![c] = IF NoSubs(c) THEN [ShutRec(conn[c], "idle", {}) EXCEPT !.timers = @ - 1]
                                   ELSE [conn[c] EXCEPT !.timers = @ - 1]]
  /\ UNCHANGED <<cfg, sub, subs, dialing, conns, down, hlog, sent, nconn, nframes, ncancel>>

-----------------------------------------------------------------------------
(* The upstream server (environment)                                         *)

\* the server side of connection c is at st and the client has not gone away (aborted request, closed socket)
SrvAt(c, st) == conn[c].srv = st /\ conn[c].stage # "failed" /\ conn[c].sock # "closed"
\* what the server sees of the connection: gone = the client closed it / aborted the request
SrvGone(c) == conn[c].srv \in {"gate_up", "gate_ack", "open"} /\ (conn[c].stage = "failed" \/ conn[c].sock = "closed")

SrvSet(c, st) ==
  /\ conn' = [conn EXCEPT ![c].srv = st, ![c].acked = IF st = "open" THEN TRUE ELSE conn[c].acked]
  /\ UNCHANGED <<cfg, sub, subs, dialing, conns, down, hlog, sent, nconn, nframes, ncancel>>

SrvUpgrade(c)  == SrvAt(c, "gate_up") /\ SrvSet(c, "gate_ack")
SrvReject(c)   == SrvAt(c, "gate_up") /\ SrvSet(c, "rejected")
SrvAck(c)      == SrvAt(c, "gate_ack") /\ conn[c].stage = "init" /\ SrvSet(c, "open")
SrvInitFail(c) == SrvAt(c, "gate_ack") /\ conn[c].stage = "init" /\ SrvSet(c, "closed")

TerminalSent(s) == \E i \in 1..Len(sent[s]) : sent[s][i].k \in {"complete", "error"}

\* one scripted frame for the subscription the server knows as id s (it has seen its subscribe frame)
\* sc / sp: what the harness handler does when it receives this frame (cancel itself / subscribe sp from inside)
SrvSend(c, s, k, v, sc, sp) ==
  /\ SrvAt(c, "open") /\ ~conn[c].held /\ s \in conn[c].ssubs /\ nframes < MaxFrames /\ ~TerminalSent(s)
  /\ (k = "next" /\ v \in Variants) \/ (k # "next" /\ v = "-")
  /\ (sc \/ sp # None) => (cfg.reent /\ k = "next")
  /\ sp # None => (sp \in Subs /\ sp # s /\ sub[sp].pc = "idle" /\ Key(sp) = Key(s))
  /\ down' = [down EXCEPT ![c] = Append(@, [k |-> k, n |-> Len(sent[s]) + 1, id |-> s, v |-> v, sc |-> sc, sp |-> sp])]
  /\ sent' = [sent EXCEPT ![s] = Append(@, [k |-> k, n |-> Len(sent[s]) + 1, v |-> v])]
  /\ nframes' = nframes + 1
  /\ UNCHANGED <<cfg, sub, conn, subs, dialing, conns, hlog, nconn, ncancel>>

\* the upstream drops the connection
\* ... with a close frame carrying code (0 = it just drops the TCP connection)
SrvClose(c, code) ==
  /\ SrvAt(c, "open") /\ ~conn[c].held
  /\ conn' = [conn EXCEPT ![c].srv = "closed", ![c].code = code]
  /\ down' = [down EXCEPT ![c] = Append(@, [k |-> "close", n |-> code, id |-> 0, v |-> "-", sc |-> FALSE, sp |-> None])]
  /\ UNCHANGED <<cfg, sub, subs, dialing, conns, hlog, sent, nconn, nframes, ncancel>>

\* the upstream stops answering pings (graphql-transport-ws ping / pong)
\* the upstream holds back what it writes from now on - in particular the answer to a close frame - until SrvRelease
SrvHoldClose(c) ==
  /\ cfg.hold /\ SrvAt(c, "open") /\ ~conn[c].held
  /\ conn' = [conn EXCEPT ![c].held = TRUE]
  /\ UNCHANGED <<cfg, sub, subs, dialing, conns, down, hlog, sent, nconn, nframes, ncancel>>
SrvRelease(c) ==
  /\ conn[c].held
  /\ conn' = [conn EXCEPT ![c].held = FALSE]
  /\ UNCHANGED <<cfg, sub, subs, dialing, conns, down, hlog, sent, nconn, nframes, ncancel>>

SrvMute(c) ==
  /\ cfg.ping /\ SrvAt(c, "open") /\ ~conn[c].muted
  /\ conn' = [conn EXCEPT ![c].muted = TRUE]
  /\ UNCHANGED <<cfg, sub, subs, dialing, conns, down, hlog, sent, nconn, nframes, ncancel>>

-----------------------------------------------------------------------------
InternalSub(s) ==
  \/ GetOrDial(s) \/ WakeDoneOk(s) \/ WakeDoneErr(s) \/ WakeDoneRetry(s) \/ WakeCtx(s)
  \/ RegisterOk(s) \/ RegisterClosed(s) \/ RegisterRetry(s)
  \/ WriteOk(s) \/ WriteEncodeFail(s) \/ WriteDead(s) \/ WriteCancelSafe(s) \/ WriteCancelKillOk(s) \/ WriteCancelKillErr(s)
  \/ Unsubscribe(s)

InternalConn(c) ==
  \/ DialUpgraded(c) \/ DialRejected(c) \/ DialAcked(c) \/ DialInitFailed(c) \/ DialCtx(c)
  \/ PubDone(c) \/ PubMapOk(c) \/ PubMapErr(c)
  \/ DispatchTo(c) \/ DispatchDrop(c) \/ ReadClose(c) \/ ReadKilled(c) \/ PingExpire(c)
  \/ (\E h \in Subs : ShutNotify(c, h)) \/ ShutEnd(c)

Env ==
  \/ \E s \in Subs : Call(s) \/ Cancel(s)
  \/ \E c \in Conn : SrvUpgrade(c) \/ SrvReject(c) \/ SrvAck(c) \/ SrvInitFail(c) \/ SrvClose(c, 0) \/ SrvMute(c)
                     \/ SrvHoldClose(c) \/ SrvRelease(c)
  \/ \E c \in Conn, s \in Subs, k \in Kinds : SrvSend(c, s, k, IF k = "next" THEN "d" ELSE "-", FALSE, None)

Next == Env \/ (\E s \in Subs : InternalSub(s)) \/ (\E c \in Conn : InternalConn(c) \/ IdleFire(c) \/ PingSpurious(c))

Spec == Init /\ [][Next]_vars

\* explicit enabledness of the internal steps (everything but timers): the harness waits for this to be false
BusySub(s) ==
  \/ sub[s].pc \in {"start", "haveconn", "registered"}
  \/ sub[s].pc = "waiting" /\ (conn[sub[s].tgt].done \/ sub[s].ctxc)
  \/ sub[s].pc = "ok" /\ sub[s].ctxc /\ ~sub[s].unsub

BusyConn(c) ==
  \/ conn[c].stage = "req" /\ conn[c].srv \in {"gate_ack", "rejected"}
  \/ conn[c].stage = "init" /\ (conn[c].acked \/ conn[c].srv = "closed")
  \/ conn[c].stage \in {"req", "init"} /\ sub[conn[c].dialler].ctxc
  \/ conn[c].stage \in {"ok", "failed"} /\ (~conn[c].pub \/ ~conn[c].done)
  \/ ReadLive(c) /\ (conn[c].sock = "closed" \/ down[c] # <<>> \/ conn[c].muted)
  \/ conn[c].shut = "notify" /\ ~Blocked(c)

Quiescent == (\A s \in Subs : ~BusySub(s)) /\ (\A c \in Conn : ~BusyConn(c))
TimersDone == \A c \in Conn : conn[c].timers = 0

-----------------------------------------------------------------------------
(* Properties (C18)                                                          *)

TypeOK ==
  /\ \A s \in Subs : sub[s].pc \in {"idle", "start", "dialling", "waiting", "haveconn", "registered", "ok", "failed"}
  /\ \A c \in Conn : conn[c].stage \in {"none", "req", "init", "ok", "failed"}
  /\ dialing \in [Keys -> Conn \cup {None}] /\ conns \in [Keys -> Conn \cup {None}]
  /\ nconn \in 0..MaxConn

Frames(s) == SelectSeq(hlog[s], LAMBDA m : m.k # "connerr")

\* every upstream message goes to the one subscription it belongs to, in upstream order, no gaps, no duplicates
Routed ==
  \A s \in Subs :
    /\ Len(Frames(s)) <= Len(sent[s])
    /\ \A i \in 1..Len(Frames(s)) :
         /\ Frames(s)[i].id = s /\ Frames(s)[i].k = sent[s][i].k /\ Frames(s)[i].n = sent[s][i].n
         /\ Frames(s)[i].v = sent[s][i].v       \* the whole payload (which top-level fields, whose contents)

Terminated(s) == \E i \in 1..Len(hlog[s]) : hlog[s][i].k \in {"complete", "error", "connerr"}

\* a complete / error for one subscription ends only that one: whoever is subscribed, not cancelled, not
\* terminated and whose connection lives is still in the routing table under its own id
TerminalLocal ==
  \A s \in Subs :
    (sub[s].pc = "ok" /\ ~sub[s].unsub /\ ~Terminated(s) /\ ~conn[sub[s].tgt].closed)
       => subs[sub[s].tgt][s] = s

\* nothing is delivered after the subscription's terminal message
NothingAfterTerminal ==
  \A s \in Subs : \A i \in 1..Len(hlog[s]) : hlog[s][i].k \in {"complete", "error", "connerr"} => i = Len(hlog[s])

\* a subscriber that did not cancel never fails because somebody else cancelled
CancelIsolated == \A s \in Subs : sub[s].blame \notin Foreign
CancelIsolatedDial  == \A s \in Subs : sub[s].blame # "foreign_dial"
CancelIsolatedWrite == \A s \in Subs : sub[s].blame # "foreign_write"
CancelIsolatedClose == \A s \in Subs : sub[s].blame # "foreign_close"
\* a connection whose upstream answers its pings is never closed for a pong timeout
NoSpuriousPing == \A s \in Subs : sub[s].blame # "spurious_ping"

\* connections are shared only between subscriptions with the same option tuple
SharedOnlyIfSameKey ==
  /\ \A c \in Conn, i \in Subs : subs[c][i] # None => Key(i) = conn[c].key /\ subs[c][i] = i
  /\ \A s \in Subs : sub[s].tgt # None => Key(s) = conn[sub[s].tgt].key
  /\ \A c \in Conn : \A i \in conn[c].ssubs : Key(i) = conn[c].key

\* a connection does not outlive its last subscription (beyond the idle timers)
NoLeak ==
  (Quiescent /\ TimersDone) => \A c \in Conn : (conn[c].sock = "open" /\ conn[c].pub) => ~NoSubs(c)

\* nobody waits for something that is not going to happen
NoStall ==
  Quiescent => \A s \in Subs : /\ (sub[s].pc = "waiting" => conn[sub[s].tgt].stage \in {"req", "init"})
                                /\ (sub[s].pc = "dialling" => conn[sub[s].tgt].stage \in {"req", "init"})

\* bookkeeping (Stats()): the map holds exactly the live connections
NoStaleEntry == Quiescent => \A k \in Keys : conns[k] # None => (~conn[conns[k]].closed \/ Blocked(conns[k]))
AllTracked   == Quiescent => \A c \in Conn : (conn[c].sock = "open" /\ conn[c].pub) => conns[conn[c].key] = c
=============================================================================
