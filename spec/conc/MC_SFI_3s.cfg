CONSTANTS
  N = 3
  Fixed = TRUE
  MaxCancels = 2
SPECIFICATION MCSpec
INVARIANTS TypeOK NoPanic Transparent NoForeignCancel SharedOnlyIfSameKey NoTornBuffer LeaderOwnsEntry
