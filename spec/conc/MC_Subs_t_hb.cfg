CONSTANTS
  NS = 2
  MaxEvents = 1
  MaxTerm = 1
  MaxSrcTerm = 1
  MaxHB = 1
  UseD = TRUE
  StartModes <- StartOK
  FixD5 = TRUE
  FixInit = TRUE
  FixDetach = TRUE
  FixUpdater = TRUE
  CfgOK <- CfgOne
  Features <- FeatNone
SPECIFICATION MCSpec
VIEW View
INVARIANTS TypeOK NoWriteAfterClose ClosedOnce WriterExclusive OrderedExact SharedIffSameKey StartOncePerLivePeriod NoStaleInit NoStaleDetach NoStaleUpdater NoLateInit Quiescent CancelledWhenDone RegistryConsistent
