----------------------------- MODULE Trace_SFS -----------------------------
EXTENDS SingleFlightSubgraph, Json, TLCExt, IOUtils
TraceLog == ndJsonDeserialize(IOEnv.TRACE)
VARIABLE l
tvars == <<vars, l>>
Ev == TraceLog[l]
IsEvent(e) == l <= Len(TraceLog) /\ Ev.ev = e /\ l' = l + 1

TraceInit ==
  /\ l = 1
  /\ TLCSet(1, 0)
  /\ Init
  /\ cfg = [key |-> [r \in Req |-> 1], elig |-> [r \in Req |-> TRUE], work |-> [k \in Keys |-> "ok"]]

T_Reset ==
  /\ IsEvent("reset")
  /\ (l = 1 \/ AllReturned)
  /\ cfg' = [key |-> [r \in Req |-> Ev.key[r]], elig |-> [r \in Req |-> Ev.elig[r]], work |-> [k \in Keys |-> Ev.work[k]]]
  /\ table' = [k \in Keys |-> None]
  /\ loaded' = [e \in Req |-> FALSE]
  /\ pubk' = [e \in Req |-> "none"]
  /\ pc' = [r \in Req |-> "start"]
  /\ mine' = [r \in Req |-> None]
  /\ lead' = [r \in Req |-> FALSE]
  /\ res' = [r \in Req |-> "none"]
  /\ cancelled' = [r \in Req |-> FALSE]
  /\ out' = [r \in Req |-> "none"]
  /\ panicked' = FALSE
  /\ ncancel' = 0

T_End == IsEvent("end") /\ AllReturned /\ UNCHANGED vars

T_Loaded == /\ IsEvent("sfs.loaded")
            /\ (Arrive(Ev.r) \/ AfterWokeRetry(Ev.r))
            /\ pc'[Ev.r] = IF Ev.b = 1 THEN "loadedF" ELSE "loadedL"
T_DsLoad == /\ IsEvent("ds.load")
            /\ (BeginWork(Ev.r) \/ Arrive(Ev.r))
            /\ pc'[Ev.r] = "loading"
T_Woke == IsEvent("sfs.woke") /\ IF Ev.b = 0 THEN WakeLoaded(Ev.r) ELSE WakeCtx(Ev.r)
T_FinDeleted == IsEvent("sfs.fin.deleted") /\ EndWork(Ev.r) /\ pc'[Ev.r] = "finDeleted"
T_FinClosed == IsEvent("sfs.fin.closed") /\ FinClose(Ev.r)
T_Return == /\ IsEvent("return")
            /\ \/ Return(Ev.r)
               \/ AfterWokeCtx(Ev.r)
               \/ AfterWokeShared(Ev.r)
               \/ (EndWork(Ev.r) /\ mine[Ev.r] = None)
            /\ pc'[Ev.r] = "returned"
            /\ out'[Ev.r] = Ev.out
T_Cancel == IsEvent("cancel") /\ Cancel(Ev.r)

TraceNext == T_Reset \/ T_End \/ T_Loaded \/ T_DsLoad \/ T_Woke \/ T_FinDeleted \/ T_FinClosed \/ T_Return \/ T_Cancel
TraceSpec == TraceInit /\ [][TraceNext]_tvars
HighWater == TLCSet(1, IF l > TLCGet(1) THEN l ELSE TLCGet(1))
TraceAccepted ==
  IF TLCGet(1) = Len(TraceLog) + 1 THEN TRUE
  ELSE /\ PrintT(<<"TRACE_STUCK_AT_LINE", TLCGet(1)>>)
       /\ FALSE
=============================================================================
