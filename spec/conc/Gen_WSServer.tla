---------------------------- MODULE Gen_WSServer ----------------------------
(***************************************************************************)
(* Generator for C19: every schedule = client message sequence over the     *)
(* protocol alphabet interleaved with engine events (and the init timeout), *)
(* bounded by MaxIn client messages and MaxEng engine events.  The state of *)
(* the pinned server model decides what is realisable (nothing can be sent  *)
(* on a closed connection; an engine event needs an executor that is        *)
(* executing; after the client completed an operation at most one more      *)
(* event of it is "in flight").  hist makes every prefix a distinct state:  *)
(* BFS enumerates every schedule, -simulate samples longer ones.  A schedule *)
(* is printed when it cannot be extended by a client message any more.       *)
(***************************************************************************)
EXTENDS WSServerImpl, Json
CONSTANTS Syms,      \* the client symbols this configuration draws from (subset of Alphabet)
          EngWhats,  \* the engine events this configuration draws from
          Extras,    \* FALSE: no timers, transport faults, slow inits, held writes (targeted configurations)
          MaxIn, MaxEng,
          PreInit   \* TRUE: every schedule starts with connection_init (used with -simulate: a random walk over the
                    \* graphql-transport-ws alphabet closes the connection almost immediately otherwise)
VARIABLES s, hist, nin, neng,
          held      \* [k, what]: the transport has taken the terminal message of query k but the write call has not
                    \* returned yet (k = 0: none) - what a slow/blocked socket does to the operation goroutine
VARIABLES slow,     \* the handler sits in an InitFunc that takes its time (connection_init with a payload): it reads nothing
          ticked    \* a keep-alive / heartbeat interval has been waited for (at most once per schedule)
gvars == <<s, hist, nin, neng, held, slow, ticked>>

StepRec(t, sym, id, k, what) == [t |-> t, sym |-> sym, id |-> id, k |-> k, what |-> what, hold |-> 0]
NotHeld == [k |-> 0, what |-> ""]

GenInit ==
  IF PreInit
  THEN /\ s = Apply(React(InitSrv, "init", 1).s, React(InitSrv, "init", 1).outs)
       /\ hist = <<StepRec("in", "init", "", 1, "")>> /\ nin = 1 /\ neng = 0 /\ held = NotHeld /\ slow = FALSE /\ ticked = FALSE
  ELSE s = InitSrv /\ hist = <<>> /\ nin = 0 /\ neng = 0 /\ held = NotHeld /\ slow = FALSE /\ ticked = FALSE

Pos == Len(hist) + 1

\* while a write is blocked the writer lock is taken: only client messages whose handling writes nothing
\* can be handled to the end (a subscribe - also a refused one, the close frame does not take that lock - and pong)
Silent == {"sub1q", "sub1s", "sub2q", "pong"}

ClientMsg(sym) ==
  /\ ~s.closed /\ nin < MaxIn /\ ~slow
  /\ held.k = 0 \/ sym \in Silent
  /\ held' = held /\ UNCHANGED <<slow, ticked>>
  /\ LET r  == React(s, sym, Pos)
         s1 == Apply(r.s, r.outs)
     IN  \* the executor of a started operation reaches its gate by itself
       s' = [s1 EXCEPT !.ex = [k \in KS |-> IF s1.ex[k].st = "starting" THEN [s1.ex[k] EXCEPT !.st = "exec"] ELSE s1.ex[k]]]
  /\ hist' = Append(hist, StepRec("in", sym, "", Pos, ""))
  /\ nin' = nin + 1 /\ neng' = neng

EngineEv(k, what) ==
  /\ ~s.closed /\ neng < MaxEng /\ held.k = 0 /\ held' = held /\ UNCHANGED <<slow, ticked>>
  /\ s.ex[k].st = "exec" /\ what \in Whats(s.ex[k].kind)
  /\ ~s.ex[k].canc \/ ~s.ex[k].infl
  /\ LET s1 == [s EXCEPT !.ex[k].infl = s.ex[k].canc] IN s' = AfterEng(s1, k, what)
  /\ hist' = Append(hist, StepRec("eng", "", s.ex[k].id, k, what))
  /\ neng' = neng + 1 /\ nin' = nin

\* the terminal message of a query is on the wire, the engine has not yet got the write call back
EngineEvHold(k, what) ==
  /\ Extras
  /\ Proto = "tws" /\ ~s.closed /\ neng < MaxEng /\ nin < MaxIn /\ held.k = 0 /\ ~slow /\ UNCHANGED <<slow, ticked>>
  /\ s.ex[k].st = "exec" /\ s.ex[k].kind = "q" /\ what \in Whats("q") /\ ~s.ex[k].canc
  /\ held' = [k |-> k, what |-> what]
  \* repaired code: the id is already free while the terminal message is being written
  /\ s' = IF Has("F5") /\ s.reg[s.ex[k].id] = k THEN [s EXCEPT !.reg[s.ex[k].id] = 0] ELSE s
  /\ hist' = Append(hist, [StepRec("eng", "", s.ex[k].id, k, what) EXCEPT !.hold = 1])
  /\ neng' = neng + 1 /\ nin' = nin

Release ==
  /\ held.k # 0 /\ ~s.closed /\ UNCHANGED <<slow, ticked>>
  /\ s' = AfterEng(s, held.k, held.what)
  /\ held' = NotHeld
  /\ hist' = Append(hist, StepRec("release", "", s.ex[held.k].id, held.k, ""))
  /\ UNCHANGED <<nin, neng>>

\* the transport breaks for good: every read fails from now on; the handler gives up after its read-error time-out
Broken ==
  /\ Extras
  /\ ~s.closed /\ held.k = 0 /\ held' = held /\ ~slow /\ UNCHANGED <<slow, ticked>>
  /\ s' = Shut(s)
  /\ hist' = Append(hist, StepRec("broken", "", "", Pos, ""))
  /\ UNCHANGED <<nin, neng>>

\* connection_init never arrives in time (only before any init was sent: no race with the timer)
InitTimeout ==
  /\ Extras
  /\ Proto = "tws" /\ ~s.closed /\ ~s.inited /\ held' = held /\ UNCHANGED <<slow, ticked>>
  /\ s' = Shut(s)
  /\ hist' = Append(hist, StepRec("timeout", "", "", Pos, ""))
  /\ UNCHANGED <<nin, neng>>

\* connection_init with a payload whose InitFunc takes its time: the handler is busy (reads nothing) until InitGo; the
\* init timeout may fire meanwhile (graphql-transport-ws).  On an acknowledged graphql-transport-ws connection the
\* InitFunc is not consulted (second init => 4429).
InitSlow ==
  /\ Extras
  /\ ~s.closed /\ nin < MaxIn /\ ~slow /\ held.k = 0 /\ held' = held /\ ticked' = ticked
  /\ hist' = Append(hist, StepRec("in", "initslow", "", Pos, ""))
  /\ nin' = nin + 1 /\ neng' = neng
  /\ IF Proto = "tws" /\ s.inited
     THEN s' = Apply(React(s, "init", Pos).s, React(s, "init", Pos).outs) /\ slow' = FALSE
     ELSE s' = s /\ slow' = TRUE

InitGo ==
  /\ slow /\ ~s.closed
  /\ s' = Apply(React(s, "init", Pos).s, React(s, "init", Pos).outs)
  /\ slow' = FALSE
  /\ hist' = Append(hist, StepRec("initgo", "", "", Pos, ""))
  /\ UNCHANGED <<nin, neng, held, ticked>>

\* wait for some keep-alive (graphql-ws `ka`) / heartbeat (graphql-transport-ws `pong`) intervals: the timers write on an
\* acknowledged connection only
\* (it shares the budget of the engine events, so that the number of schedules stays in bounds)
Tick ==
  /\ Extras
  /\ ~s.closed /\ ~slow /\ held.k = 0 /\ ~ticked /\ neng < MaxEng
  /\ s.inited \/ nin <= 1          \* before the ack only early in the schedule (keeps the number of schedules in bounds)
  /\ ticked' = TRUE /\ neng' = neng + 1
  /\ hist' = Append(hist, StepRec("tick", "", "", Pos, ""))
  /\ UNCHANGED <<s, nin, held, slow>>

GenNext == \/ \E sym \in Syms : ClientMsg(sym)
           \/ \E k \in KS, what \in EngWhats : EngineEv(k, what)
           \/ \E k \in KS, what \in {"error", "result"} : EngineEvHold(k, what)
           \/ Release
           \/ InitTimeout
           \/ Broken
           \/ InitSlow \/ InitGo \/ Tick
GenSpec == GenInit /\ [][GenNext]_gvars

Final == s.closed \/ (nin = MaxIn /\ held.k = 0 /\ ~slow)
Emit == IF Final /\ hist # <<>> THEN PrintT(ToJson([proto |-> Proto, steps |-> hist])) ELSE TRUE
GenConstraint == Emit
=============================================================================
