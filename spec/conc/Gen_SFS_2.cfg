CONSTANTS
  N = 2
  Fixed = TRUE
  MaxCancels = 1
SPECIFICATION GenSpec
CONSTRAINT GenConstraint
CHECK_DEADLOCK FALSE
