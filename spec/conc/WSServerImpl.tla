----------------------------- MODULE WSServerImpl -----------------------------
(***************************************************************************)
(* A server for the two WebSocket protocols as a small state machine: how   *)
(* the connection handler reacts to one client message.  Two variants:      *)
(*   Impl = "ref"    the obvious implementation of what property C19         *)
(*                   states; it must be accepted by the acceptors            *)
(*                   (MC_WSServer) - the acceptor is not vacuous/too strict. *)
(*   Impl = "pinned" the code as it behaves today (complete is echoed for    *)
(*                   any id; a subscribe without id starts operation "";     *)
(*                   operations are cancelled but not joined; the poll loop  *)
(*                   goes on after an error).  It is used by the generator   *)
(*                   so that generated schedules are realisable on the code, *)
(*                   and by a negative model-checking run (the acceptor must *)
(*                   reject it).                                             *)
(* State: [inited, closed, reg: id -> incarnation holding the id (0 = free), *)
(*         ex: incarnation -> executor].  Incarnation = index of the          *)
(* subscribe step in the schedule.                                           *)
(***************************************************************************)
EXTENDS WSServerCommon

CONSTANTS Proto,     \* "tws" | "gws"
          Impl,      \* "ref" | "pinned"
          Echo,      \* ref only: echo the client's complete for an active operation
          MaxLen,    \* bound on the schedule length (incarnation numbers)
          Fixes      \* pinned only: which repairs the code under test already has, subset of {"D8a","D8b","F4","F5"}
                     \*   D8a  complete is echoed only for an operation that was actually stopped
                     \*   D8b  a stopped operation emits nothing any more (and does not release the id)
                     \*   F4   subscribe/start without id is refused (4400 / connection_error), nothing starts
                     \*   F5   the id of a query is released before its terminal message is written
                     \* (F3 - the poll loop goes on after error(id) - is pinned by an existing test and stays)

KS == 1..MaxLen
NoEx == [id |-> "", kind |-> "", st |-> "none", canc |-> FALSE, infl |-> FALSE, n |-> 0]

InitSrv == [inited |-> FALSE, closed |-> FALSE,
            reg |-> [i \in OpIds |-> 0],
            ex  |-> [k \in KS |-> NoEx]]

Ev(ev, a, id, k, n, code) == [ev |-> ev, a |-> a, id |-> id, k |-> k, n |-> n, code |-> code]
Msg(t, id)  == Ev("out", t, id, 0, 0, 0)
CloseEv(c)  == Ev("close", "", "", 0, 0, c)
InEv(sym, k) == Ev("in", sym, "", k, 0, 0)

R(s, outs) == [s |-> s, outs |-> outs]

\* closing ends everything: every operation is cancelled, every id released
Shut(s) == [s EXCEPT !.closed = TRUE,
                     !.reg = [i \in OpIds |-> 0],
                     !.ex = [k \in KS |-> IF s.ex[k].st = "none" THEN NoEx ELSE [s.ex[k] EXCEPT !.canc = TRUE]]]
\* the handler decides to close; the connection is closed when the close frame is written (Apply)
CloseWith(s, c) == R(s, <<CloseEv(c)>>)
Closes(outs) == \E i \in 1..Len(outs) : outs[i].ev = "close"
Apply(s, outs) == IF Closes(outs) THEN Shut(s) ELSE s

Start(s, id, kind, k) ==
  [s EXCEPT !.reg[id] = k, !.ex[k] = [id |-> id, kind |-> kind, st |-> "starting", canc |-> FALSE, infl |-> FALSE, n |-> 0]]

Stop(s, id) ==
  IF id \in OpIds /\ s.reg[id] # 0
  THEN [s EXCEPT !.reg[id] = 0, !.ex[s.reg[id]].canc = TRUE]
  ELSE s
Registered(s, id) == id \in OpIds /\ s.reg[id] # 0

CompleteName == "complete"
DataName  == IF Proto = "tws" THEN "next" ELSE "data"

Has(f) == Impl = "pinned" /\ f \in Fixes
NoIdRefused == Impl = "ref" \/ Has("F4")

HStop(s, id) ==
  IF Impl = "pinned" /\ ~Has("D8a") THEN R(Stop(s, id), <<Msg("complete", id)>>)
  ELSE IF Impl = "pinned" THEN (IF Registered(s, id) THEN R(Stop(s, id), <<Msg("complete", id)>>) ELSE R(s, <<>>))
  ELSE IF Echo /\ Registered(s, id) THEN R(Stop(s, id), <<Msg("complete", id)>>)
  ELSE R(Stop(s, id), <<>>)

\* graphql-ws refuses an init by terminating everything that runs on the connection (silently) - the connection stays
StopAll(s) == [s EXCEPT !.reg = [i \in OpIds |-> 0],
                        !.ex = [k \in KS |-> IF s.ex[k].st = "none" THEN NoEx ELSE [s.ex[k] EXCEPT !.canc = TRUE]]]

TwsReact(s, sym, k) ==
  CASE sym \in {"init", "initslow"} -> IF ~s.inited THEN R([s EXCEPT !.inited = TRUE], <<Msg("connection_ack", "")>>)
                       ELSE CloseWith(s, 4429)
    [] sym = "initrej" -> IF ~s.inited THEN CloseWith(s, 4401) ELSE CloseWith(s, 4429)
    [] sym = "subbad" -> IF ~s.inited THEN CloseWith(s, 4401)
                         ELSE IF Impl = "ref" THEN CloseWith(s, 4400) ELSE R(s, <<>>)   \* pinned: ignored
    [] sym = "readerr" -> R(s, <<>>)
    [] sym = "ping" -> R(s, <<Msg("pong", "")>>)
    [] sym = "pong" -> R(s, <<>>)
    [] sym = "missingid" ->
         IF ~s.inited THEN CloseWith(s, 4401)
         ELSE IF NoIdRefused THEN CloseWith(s, 4400)
         ELSE IF s.reg[""] # 0 THEN CloseWith(s, 4409)
         ELSE R(Start(s, "", "q", k), <<>>)
    [] sym \in SubSyms ->
         LET id == SubId(sym) IN
         IF ~s.inited THEN CloseWith(s, 4401)
         ELSE IF s.reg[id] # 0 THEN CloseWith(s, 4409)
         ELSE R(Start(s, id, SubKind(sym), k), <<>>)
    [] sym \in CompSyms -> HStop(s, CompId(sym))
    [] OTHER -> CloseWith(s, 4400)              \* unknown type, malformed JSON, binary payload

GwsReact(s, sym, k) ==
  CASE sym \in {"init", "initslow"} -> R([s EXCEPT !.inited = TRUE], <<Msg("connection_ack", "")>>)
    [] sym = "initrej" -> R(StopAll(s), <<Msg("connection_error", "")>>)
    [] sym = "terminate" -> R(StopAll(s), <<>>)
    [] sym = "subbad" -> IF Impl = "ref" THEN R(s, <<Msg("connection_error", "")>>) ELSE R(s, <<>>)
    [] sym = "readerr" -> R(s, <<Msg("connection_error", "")>>)
    [] sym \in {"ping", "pong", "unknown"} -> R(s, <<Msg("connection_error", "")>>)
    [] sym \in {"malformed", "binary"} ->
         IF Impl = "ref" THEN R(s, <<Msg("connection_error", "")>>) ELSE R(s, <<Msg("error", "")>>)
    [] sym = "missingid" ->
         IF NoIdRefused THEN R(s, <<Msg("connection_error", "")>>)
         ELSE IF s.reg[""] # 0 THEN R(s, <<Msg("error", "")>>)
         ELSE R(Start(s, "", "q", k), <<>>)
    [] sym \in SubSyms ->
         LET id == SubId(sym) IN
         IF s.reg[id] # 0 THEN R(s, <<Msg("error", id)>>)
         ELSE R(Start(s, id, SubKind(sym), k), <<>>)
    [] sym \in CompSyms -> HStop(s, CompId(sym))
    [] OTHER -> R(s, <<>>)

React(s, sym, k) == IF Proto = "tws" THEN TwsReact(s, sym, k) ELSE GwsReact(s, sym, k)

\* what an executor may produce
Whats(kind) == IF kind = "q" THEN {"result", "error", "qflush"} ELSE {"data", "fin", "error"}

\* messages the engine writes for an engine event of executor k (n = number of the data message)
EngOuts(s, k, what) ==
  LET x == s.ex[k] IN
  CASE what = "data"   -> <<Ev("out", DataName, x.id, k, x.n + 1, 0)>>
    [] what = "result" -> <<Ev("out", DataName, x.id, k, x.n + 1, 0), Msg("complete", x.id)>>
    [] what = "error"  -> <<Msg("error", x.id)>>
    [] OTHER           -> <<>>

\* executor state after the engine dealt with the event
AfterEng(s, k, what) ==
  LET x == s.ex[k]
      n1 == IF what \in {"data", "result", "qflush"} THEN x.n + 1 ELSE x.n
      again == [x EXCEPT !.st = IF x.canc THEN "done" ELSE "exec", !.n = n1]
      over  == [x EXCEPT !.st = "done", !.n = n1]
      free  == IF s.reg[x.id] = k THEN [s EXCEPT !.reg[x.id] = 0] ELSE s
  IN
  CASE what \in {"data", "qflush"} -> [s EXCEPT !.ex[k] = [x EXCEPT !.st = "exec", !.n = n1]]
    [] x.kind = "q"  -> [free EXCEPT !.ex[k] = over]                       \* result | error: the operation is over
    [] what = "fin"  -> [s EXCEPT !.ex[k] = again]                         \* poll loop: executed again unless cancelled
    [] OTHER         -> IF Impl = "ref" THEN [free EXCEPT !.ex[k] = over]  \* error of a subscription round
                        ELSE [s EXCEPT !.ex[k] = again]                    \* pinned: polling goes on, the id stays taken

Alphabet == {"init", "initrej", "terminate", "sub1dq", "sub2ds", "ping", "pong", "sub1q", "sub1s", "sub2q", "subbad", "comp1", "comp9", "unknown", "malformed",
             "missingid", "binary", "readerr"}
=============================================================================
