------------------------------ MODULE Gen_SFS ------------------------------
EXTENDS SingleFlightSubgraph, Json
VARIABLE hist
GenInit == Init /\ hist = <<>>
GenNext == \E r \in Req : \E a \in ActNames : Step(r, a) /\ hist' = Append(hist, [r |-> r, act |-> a])
GenSpec == GenInit /\ [][GenNext]_<<vars, hist>>
Emit == IF AllReturned
        THEN PrintT(ToJson([key |-> cfg.key, elig |-> cfg.elig, work |-> cfg.work, steps |-> hist, out |-> out]))
        ELSE TRUE
GenConstraint == Emit
=============================================================================
