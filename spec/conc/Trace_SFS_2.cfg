CONSTANTS
  N = 2
  Fixed = TRUE
  MaxCancels = 9
SPECIFICATION TraceSpec
CONSTRAINT HighWater
INVARIANTS NoPanic Transparent NoForeignCancel SharedOnlyIfSameKey NoTornBuffer LeaderOwnsEntry
POSTCONDITION TraceAccepted
CHECK_DEADLOCK FALSE
