------------------------------- MODULE MC_SFS -------------------------------
EXTENDS SingleFlightSubgraph
Terminating == AllReturned /\ UNCHANGED vars
MCNext == Next \/ Terminating
MCSpec == Init /\ [][MCNext]_vars /\ \A r \in Req : WF_vars(Internal(r))
=============================================================================
