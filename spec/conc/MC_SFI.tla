------------------------------- MODULE MC_SFI -------------------------------
EXTENDS SingleFlightInbound
\* deadlock = some request not returned and nothing enabled
Terminating == AllReturned /\ UNCHANGED vars
MCNext == Next \/ Terminating
MCSpec == Init /\ [][MCNext]_vars /\ \A r \in Req : WF_vars(Internal(r))
=============================================================================
