------------------------- MODULE SFS_IndInv_proofs -------------------------
(***************************************************************************)
(* TLAPS proofs for SFS_IndInv: for EVERY N \in Nat (and every MaxCancels  *)
(* \in Nat), the repaired single-flight protocol for subgraph requests      *)
(* (SingleFlightSubgraph with Fixed = TRUE) satisfies                       *)
(*   NoPanic, Transparent, NoForeignCancel, SharedOnlyIfSameKey,            *)
(*   NoTornBuffer, LeaderOwnsEntry                                          *)
(* in every reachable state.                                                *)
(*                                                                          *)
(*   InitIndInv / InitAnyIndInv   Init => IndInv   (InitAny: any cfg)       *)
(*   IndInvNext                   IndInv /\ [Next]_vars => IndInv'          *)
(*                                one <1>k step per action of the spec,     *)
(*                                each split into the 4 conjuncts of IndInv *)
(*   IndInvSafety                 IndInv => Safety                          *)
(*   SpecIndInv, SpecSafety, SpecAnySafety    (PTL)                         *)
(*                                                                          *)
(* No proof step is left out.  Check: spec/conc/check_sfi_indinv.sh         *)
(*                                                                          *)
(* Same proof engineering as SFI_IndInv_proofs: Req, Keys and None stay     *)
(* UNEXPANDED everywhere except in NoneNotReq; Fixed = TRUE enters through  *)
(* FixedTrue and is needed by exactly one obligation (AfterWokeShared,      *)
(* request-level conjunct: a live follower never takes over the leader's    *)
(* context error).                                                          *)
(***************************************************************************)
EXTENDS SFS_IndInv, TLAPS

\* the facts about the acting request that the type / table / panic parts of the step need
Facts(r) ==
  /\ pc[r] \in FollowerPcs => mine[r] \in Req /\ mine[r] # r /\ cfg.elig[r]
  /\ pc[r] \in LeaderPcs => mine[r] = r
  /\ pc[r] = "loading" => mine[r] = None \/ mine[r] = r
  /\ pc[r] \in {"loadedL", "loading", "finDeleted"} => ~loaded[r]

LEMMA NextCases ==
  ASSUME Next
  PROVE \E r \in Req : \/ Arrive(r) \/ BeginWork(r) \/ WakeLoaded(r) \/ WakeCtx(r) \/ AfterWokeCtx(r)
                       \/ AfterWokeShared(r) \/ AfterWokeRetry(r) \/ EndWork(r) \/ FinClose(r)
                       \/ Return(r) \/ Cancel(r)
  BY DEF Next, Step, ActNames

\* the only arithmetic fact the argument needs: the "no entry" marker is not a request id
LEMMA NoneNotReq == None \notin Req
  BY ConstAssump DEF None, Req

LEMMA FixedTrue == Fixed = TRUE
  BY ConstAssump

THEOREM InitIndInv == Init => IndInv
  BY NoneNotReq DEF Init, IndInv, TypeInv, ReqInv, TableInv, Configs, PCs, Outs, Kinds,
     FollowerPcs, LeaderPcs, GoodOut, GoodKind, Key, Work

THEOREM InitAnyIndInv == InitAny => IndInv
  BY NoneNotReq DEF InitAny, CfgType, IndInv, TypeInv, ReqInv, TableInv, PCs, Outs, Kinds,
     FollowerPcs, LeaderPcs, GoodOut, GoodKind, Key, Work

THEOREM IndInvSafety == IndInv => Safety
  BY NoneNotReq DEF Safety, IndInv, TypeInv, ReqInv, TableInv, PCs, Outs, Kinds,
     FollowerPcs, LeaderPcs, GoodOut, GoodKind, Key, Work,
     NoPanic, LeaderOwnsEntry, NoForeignCancel, Transparent, SharedOnlyIfSameKey, NoTornBuffer

THEOREM IndInvNext == IndInv /\ [Next]_vars => IndInv'
<1> SUFFICES ASSUME IndInv, [Next]_vars PROVE IndInv'
  OBVIOUS
<1> USE NoneNotReq, FixedTrue
<1>1. ASSUME NEW r \in Req, Arrive(r) PROVE IndInv'
  <2>a. TypeInv /\ ~panicked /\ TableInv /\ ReqInv(r)
    BY DEF IndInv
  <2>b. Facts(r)
    BY <2>a DEF Facts, TypeInv, ReqInv, FollowerPcs, LeaderPcs
  <2>c. /\ Key(r) \in Keys /\ DSResult(r) \in {"ctxerr", "uperr", "data"}
        /\ \A k \in Kinds : OutOf(r, k) \in {"solo", "otherdata"}
    BY <2>a DEF TypeInv, Key, Work, DSResult, OutOf
  <2>1. TypeInv'
    BY <1>1, <2>a, <2>b, <2>c DEF Facts, TypeInv, Arrive, GetOrCreateItem, PCs, Outs, Kinds, FollowerPcs, LeaderPcs
  <2>2. ~panicked'
    BY <1>1, <2>a, <2>b DEF Facts, Arrive, GetOrCreateItem, LeaderPcs
  <2>3. \A q \in Req : ReqInv(q)'
    BY <1>1 DEF IndInv, TypeInv, ReqInv, TableInv, Arrive, GetOrCreateItem, PCs, Outs, Kinds, FollowerPcs, LeaderPcs, GoodOut, GoodKind, Key, Work, DSResult, OutOf
  <2>4. TableInv'
    BY <1>1, <2>a, <2>b DEF Facts, TypeInv, TableInv, Arrive, GetOrCreateItem, Key, FollowerPcs, LeaderPcs
  <2> QED BY <2>1, <2>2, <2>3, <2>4 DEF IndInv
<1>2. ASSUME NEW r \in Req, BeginWork(r) PROVE IndInv'
  <2>a. TypeInv /\ ~panicked /\ TableInv /\ ReqInv(r)
    BY DEF IndInv
  <2>b. Facts(r)
    BY <2>a DEF Facts, TypeInv, ReqInv, FollowerPcs, LeaderPcs
  <2>c. /\ Key(r) \in Keys /\ DSResult(r) \in {"ctxerr", "uperr", "data"}
        /\ \A k \in Kinds : OutOf(r, k) \in {"solo", "otherdata"}
    BY <2>a DEF TypeInv, Key, Work, DSResult, OutOf
  <2>1. TypeInv'
    BY <1>2, <2>a, <2>b, <2>c DEF Facts, TypeInv, BeginWork, GetOrCreateItem, PCs, Outs, Kinds, FollowerPcs, LeaderPcs
  <2>2. ~panicked'
    BY <1>2, <2>a, <2>b DEF Facts, BeginWork, GetOrCreateItem, LeaderPcs
  <2>3. \A q \in Req : ReqInv(q)'
    BY <1>2 DEF IndInv, TypeInv, ReqInv, TableInv, BeginWork, GetOrCreateItem, PCs, Outs, Kinds, FollowerPcs, LeaderPcs, GoodOut, GoodKind, Key, Work, DSResult, OutOf
  <2>4. TableInv'
    BY <1>2, <2>a, <2>b DEF Facts, TypeInv, TableInv, BeginWork, GetOrCreateItem, Key, FollowerPcs, LeaderPcs
  <2> QED BY <2>1, <2>2, <2>3, <2>4 DEF IndInv
<1>3. ASSUME NEW r \in Req, WakeLoaded(r) PROVE IndInv'
  <2>a. TypeInv /\ ~panicked /\ TableInv /\ ReqInv(r)
    BY DEF IndInv
  <2>b. Facts(r)
    BY <2>a DEF Facts, TypeInv, ReqInv, FollowerPcs, LeaderPcs
  <2>c. /\ Key(r) \in Keys /\ DSResult(r) \in {"ctxerr", "uperr", "data"}
        /\ \A k \in Kinds : OutOf(r, k) \in {"solo", "otherdata"}
    BY <2>a DEF TypeInv, Key, Work, DSResult, OutOf
  <2>1. TypeInv'
    BY <1>3, <2>a, <2>b, <2>c DEF Facts, TypeInv, WakeLoaded, GetOrCreateItem, PCs, Outs, Kinds, FollowerPcs, LeaderPcs
  <2>2. ~panicked'
    BY <1>3, <2>a, <2>b DEF Facts, WakeLoaded, GetOrCreateItem, LeaderPcs
  <2>3. \A q \in Req : ReqInv(q)'
    BY <1>3 DEF IndInv, TypeInv, ReqInv, TableInv, WakeLoaded, GetOrCreateItem, PCs, Outs, Kinds, FollowerPcs, LeaderPcs, GoodOut, GoodKind, Key, Work, DSResult, OutOf
  <2>4. TableInv'
    BY <1>3, <2>a, <2>b DEF Facts, TypeInv, TableInv, WakeLoaded, GetOrCreateItem, Key, FollowerPcs, LeaderPcs
  <2> QED BY <2>1, <2>2, <2>3, <2>4 DEF IndInv
<1>4. ASSUME NEW r \in Req, WakeCtx(r) PROVE IndInv'
  <2>a. TypeInv /\ ~panicked /\ TableInv /\ ReqInv(r)
    BY DEF IndInv
  <2>b. Facts(r)
    BY <2>a DEF Facts, TypeInv, ReqInv, FollowerPcs, LeaderPcs
  <2>c. /\ Key(r) \in Keys /\ DSResult(r) \in {"ctxerr", "uperr", "data"}
        /\ \A k \in Kinds : OutOf(r, k) \in {"solo", "otherdata"}
    BY <2>a DEF TypeInv, Key, Work, DSResult, OutOf
  <2>1. TypeInv'
    BY <1>4, <2>a, <2>b, <2>c DEF Facts, TypeInv, WakeCtx, GetOrCreateItem, PCs, Outs, Kinds, FollowerPcs, LeaderPcs
  <2>2. ~panicked'
    BY <1>4, <2>a, <2>b DEF Facts, WakeCtx, GetOrCreateItem, LeaderPcs
  <2>3. \A q \in Req : ReqInv(q)'
    BY <1>4 DEF IndInv, TypeInv, ReqInv, TableInv, WakeCtx, GetOrCreateItem, PCs, Outs, Kinds, FollowerPcs, LeaderPcs, GoodOut, GoodKind, Key, Work, DSResult, OutOf
  <2>4. TableInv'
    BY <1>4, <2>a, <2>b DEF Facts, TypeInv, TableInv, WakeCtx, GetOrCreateItem, Key, FollowerPcs, LeaderPcs
  <2> QED BY <2>1, <2>2, <2>3, <2>4 DEF IndInv
<1>5. ASSUME NEW r \in Req, AfterWokeCtx(r) PROVE IndInv'
  <2>a. TypeInv /\ ~panicked /\ TableInv /\ ReqInv(r)
    BY DEF IndInv
  <2>b. Facts(r)
    BY <2>a DEF Facts, TypeInv, ReqInv, FollowerPcs, LeaderPcs
  <2>c. /\ Key(r) \in Keys /\ DSResult(r) \in {"ctxerr", "uperr", "data"}
        /\ \A k \in Kinds : OutOf(r, k) \in {"solo", "otherdata"}
    BY <2>a DEF TypeInv, Key, Work, DSResult, OutOf
  <2>1. TypeInv'
    BY <1>5, <2>a, <2>b, <2>c DEF Facts, TypeInv, AfterWokeCtx, GetOrCreateItem, PCs, Outs, Kinds, FollowerPcs, LeaderPcs
  <2>2. ~panicked'
    BY <1>5, <2>a, <2>b DEF Facts, AfterWokeCtx, GetOrCreateItem, LeaderPcs
  <2>3. \A q \in Req : ReqInv(q)'
    BY <1>5 DEF IndInv, TypeInv, ReqInv, TableInv, AfterWokeCtx, GetOrCreateItem, PCs, Outs, Kinds, FollowerPcs, LeaderPcs, GoodOut, GoodKind, Key, Work, DSResult, OutOf
  <2>4. TableInv'
    BY <1>5, <2>a, <2>b DEF Facts, TypeInv, TableInv, AfterWokeCtx, GetOrCreateItem, Key, FollowerPcs, LeaderPcs
  <2> QED BY <2>1, <2>2, <2>3, <2>4 DEF IndInv
<1>6. ASSUME NEW r \in Req, AfterWokeShared(r) PROVE IndInv'
  <2>a. TypeInv /\ ~panicked /\ TableInv /\ ReqInv(r)
    BY DEF IndInv
  <2>b. Facts(r)
    BY <2>a DEF Facts, TypeInv, ReqInv, FollowerPcs, LeaderPcs
  <2>c. /\ Key(r) \in Keys /\ DSResult(r) \in {"ctxerr", "uperr", "data"}
        /\ \A k \in Kinds : OutOf(r, k) \in {"solo", "otherdata"}
    BY <2>a DEF TypeInv, Key, Work, DSResult, OutOf
  <2>1. TypeInv'
    BY <1>6, <2>a, <2>b, <2>c DEF Facts, TypeInv, AfterWokeShared, GetOrCreateItem, PCs, Outs, Kinds, FollowerPcs, LeaderPcs
  <2>2. ~panicked'
    BY <1>6, <2>a, <2>b DEF Facts, AfterWokeShared, GetOrCreateItem, LeaderPcs
  <2>3. \A q \in Req : ReqInv(q)'
    BY <1>6 DEF IndInv, TypeInv, ReqInv, TableInv, AfterWokeShared, GetOrCreateItem, PCs, Outs, Kinds, FollowerPcs, LeaderPcs, GoodOut, GoodKind, Key, Work, DSResult, OutOf
  <2>4. TableInv'
    BY <1>6, <2>a, <2>b DEF Facts, TypeInv, TableInv, AfterWokeShared, GetOrCreateItem, Key, FollowerPcs, LeaderPcs
  <2> QED BY <2>1, <2>2, <2>3, <2>4 DEF IndInv
<1>7. ASSUME NEW r \in Req, AfterWokeRetry(r) PROVE IndInv'
  <2>a. TypeInv /\ ~panicked /\ TableInv /\ ReqInv(r)
    BY DEF IndInv
  <2>b. Facts(r)
    BY <2>a DEF Facts, TypeInv, ReqInv, FollowerPcs, LeaderPcs
  <2>c. /\ Key(r) \in Keys /\ DSResult(r) \in {"ctxerr", "uperr", "data"}
        /\ \A k \in Kinds : OutOf(r, k) \in {"solo", "otherdata"}
    BY <2>a DEF TypeInv, Key, Work, DSResult, OutOf
  <2>1. TypeInv'
    BY <1>7, <2>a, <2>b, <2>c DEF Facts, TypeInv, AfterWokeRetry, GetOrCreateItem, PCs, Outs, Kinds, FollowerPcs, LeaderPcs
  <2>2. ~panicked'
    BY <1>7, <2>a, <2>b DEF Facts, AfterWokeRetry, GetOrCreateItem, LeaderPcs
  <2>3. \A q \in Req : ReqInv(q)'
    BY <1>7 DEF IndInv, TypeInv, ReqInv, TableInv, AfterWokeRetry, GetOrCreateItem, PCs, Outs, Kinds, FollowerPcs, LeaderPcs, GoodOut, GoodKind, Key, Work, DSResult, OutOf
  <2>4. TableInv'
    BY <1>7, <2>a, <2>b DEF Facts, TypeInv, TableInv, AfterWokeRetry, GetOrCreateItem, Key, FollowerPcs, LeaderPcs
  <2> QED BY <2>1, <2>2, <2>3, <2>4 DEF IndInv
<1>8. ASSUME NEW r \in Req, EndWork(r) PROVE IndInv'
  <2>a. TypeInv /\ ~panicked /\ TableInv /\ ReqInv(r)
    BY DEF IndInv
  <2>b. Facts(r)
    BY <2>a DEF Facts, TypeInv, ReqInv, FollowerPcs, LeaderPcs
  <2>c. /\ Key(r) \in Keys /\ DSResult(r) \in {"ctxerr", "uperr", "data"}
        /\ \A k \in Kinds : OutOf(r, k) \in {"solo", "otherdata"}
    BY <2>a DEF TypeInv, Key, Work, DSResult, OutOf
  <2>1. TypeInv'
    BY <1>8, <2>a, <2>b, <2>c DEF Facts, TypeInv, EndWork, GetOrCreateItem, PCs, Outs, Kinds, FollowerPcs, LeaderPcs
  <2>2. ~panicked'
    BY <1>8, <2>a, <2>b DEF Facts, EndWork, GetOrCreateItem, LeaderPcs
  <2>3. \A q \in Req : ReqInv(q)'
    BY <1>8 DEF IndInv, TypeInv, ReqInv, TableInv, EndWork, GetOrCreateItem, PCs, Outs, Kinds, FollowerPcs, LeaderPcs, GoodOut, GoodKind, Key, Work, DSResult, OutOf
  <2>4. TableInv'
    BY <1>8, <2>a, <2>b DEF Facts, TypeInv, TableInv, EndWork, GetOrCreateItem, Key, FollowerPcs, LeaderPcs
  <2> QED BY <2>1, <2>2, <2>3, <2>4 DEF IndInv
<1>9. ASSUME NEW r \in Req, FinClose(r) PROVE IndInv'
  <2>a. TypeInv /\ ~panicked /\ TableInv /\ ReqInv(r)
    BY DEF IndInv
  <2>b. Facts(r)
    BY <2>a DEF Facts, TypeInv, ReqInv, FollowerPcs, LeaderPcs
  <2>c. /\ Key(r) \in Keys /\ DSResult(r) \in {"ctxerr", "uperr", "data"}
        /\ \A k \in Kinds : OutOf(r, k) \in {"solo", "otherdata"}
    BY <2>a DEF TypeInv, Key, Work, DSResult, OutOf
  <2>1. TypeInv'
    BY <1>9, <2>a, <2>b, <2>c DEF Facts, TypeInv, FinClose, GetOrCreateItem, PCs, Outs, Kinds, FollowerPcs, LeaderPcs
  <2>2. ~panicked'
    BY <1>9, <2>a, <2>b DEF Facts, FinClose, GetOrCreateItem, LeaderPcs
  <2>3. \A q \in Req : ReqInv(q)'
    BY <1>9 DEF IndInv, TypeInv, ReqInv, TableInv, FinClose, GetOrCreateItem, PCs, Outs, Kinds, FollowerPcs, LeaderPcs, GoodOut, GoodKind, Key, Work, DSResult, OutOf
  <2>4. TableInv'
    BY <1>9, <2>a, <2>b DEF Facts, TypeInv, TableInv, FinClose, GetOrCreateItem, Key, FollowerPcs, LeaderPcs
  <2> QED BY <2>1, <2>2, <2>3, <2>4 DEF IndInv
<1>10. ASSUME NEW r \in Req, Return(r) PROVE IndInv'
  <2>a. TypeInv /\ ~panicked /\ TableInv /\ ReqInv(r)
    BY DEF IndInv
  <2>b. Facts(r)
    BY <2>a DEF Facts, TypeInv, ReqInv, FollowerPcs, LeaderPcs
  <2>c. /\ Key(r) \in Keys /\ DSResult(r) \in {"ctxerr", "uperr", "data"}
        /\ \A k \in Kinds : OutOf(r, k) \in {"solo", "otherdata"}
    BY <2>a DEF TypeInv, Key, Work, DSResult, OutOf
  <2>1. TypeInv'
    BY <1>10, <2>a, <2>b, <2>c DEF Facts, TypeInv, Return, GetOrCreateItem, PCs, Outs, Kinds, FollowerPcs, LeaderPcs
  <2>2. ~panicked'
    BY <1>10, <2>a, <2>b DEF Facts, Return, GetOrCreateItem, LeaderPcs
  <2>3. \A q \in Req : ReqInv(q)'
    BY <1>10 DEF IndInv, TypeInv, ReqInv, TableInv, Return, GetOrCreateItem, PCs, Outs, Kinds, FollowerPcs, LeaderPcs, GoodOut, GoodKind, Key, Work, DSResult, OutOf
  <2>4. TableInv'
    BY <1>10, <2>a, <2>b DEF Facts, TypeInv, TableInv, Return, GetOrCreateItem, Key, FollowerPcs, LeaderPcs
  <2> QED BY <2>1, <2>2, <2>3, <2>4 DEF IndInv
<1>11. ASSUME NEW r \in Req, Cancel(r) PROVE IndInv'
  <2>a. TypeInv /\ ~panicked /\ TableInv /\ ReqInv(r)
    BY DEF IndInv
  <2>b. Facts(r)
    BY <2>a DEF Facts, TypeInv, ReqInv, FollowerPcs, LeaderPcs
  <2>c. /\ Key(r) \in Keys /\ DSResult(r) \in {"ctxerr", "uperr", "data"}
        /\ \A k \in Kinds : OutOf(r, k) \in {"solo", "otherdata"}
    BY <2>a DEF TypeInv, Key, Work, DSResult, OutOf
  <2>1. TypeInv'
    BY <1>11, <2>a, <2>b, <2>c DEF Facts, TypeInv, Cancel, GetOrCreateItem, PCs, Outs, Kinds, FollowerPcs, LeaderPcs
  <2>2. ~panicked'
    BY <1>11, <2>a, <2>b DEF Facts, Cancel, GetOrCreateItem, LeaderPcs
  <2>3. \A q \in Req : ReqInv(q)'
    BY <1>11 DEF IndInv, TypeInv, ReqInv, TableInv, Cancel, GetOrCreateItem, PCs, Outs, Kinds, FollowerPcs, LeaderPcs, GoodOut, GoodKind, Key, Work, DSResult, OutOf
  <2>4. TableInv'
    BY <1>11, <2>a, <2>b DEF Facts, TypeInv, TableInv, Cancel, GetOrCreateItem, Key, FollowerPcs, LeaderPcs
  <2> QED BY <2>1, <2>2, <2>3, <2>4 DEF IndInv
<1>12. CASE UNCHANGED vars
  BY <1>12 DEF IndInv, TypeInv, ReqInv, TableInv, vars, GoodOut, GoodKind, Key, Work
<1> QED
  BY NextCases, <1>1, <1>2, <1>3, <1>4, <1>5, <1>6, <1>7, <1>8, <1>9, <1>10, <1>11, <1>12

THEOREM SpecIndInv == Spec => []IndInv
  BY InitIndInv, IndInvNext, PTL DEF Spec

THEOREM SpecSafety == Spec => []Safety
  BY SpecIndInv, IndInvSafety, PTL

THEOREM SpecAnySafety == SpecAny => []Safety
  BY InitAnyIndInv, IndInvNext, IndInvSafety, PTL DEF SpecAny
=============================================================================
