CONSTANTS
  N = 2
  Fixed = TRUE
  MaxCancels = 2
SPECIFICATION MCSpec
INVARIANTS TypeOK NoPanic Transparent NoForeignCancel SharedOnlyIfSameKey NoTornBuffer LeaderOwnsEntry
PROPERTIES EveryoneReturns NoWedge
