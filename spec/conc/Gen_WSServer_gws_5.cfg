CONSTANTS
  Proto = "gws"
  Impl = "pinned"
  Echo = TRUE
  MaxLen = 8
  Fixes = {}
  MaxIn = 5
  MaxEng = 3
  PreInit = FALSE
SPECIFICATION GenSpec
CONSTRAINT GenConstraint
CHECK_DEADLOCK FALSE
