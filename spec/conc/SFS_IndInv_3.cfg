\* TLC sanity run for the inductive invariant of SFS_IndInv.tla: IndInv (and the six safety
\* properties) hold in every reachable state for N = 3.  The unbounded-N proof is SFS_IndInv_proofs.tla.
CONSTANTS
  N = 3
  Fixed = TRUE
  MaxCancels = 3
INIT Init
NEXT Next
INVARIANTS IndInv Safety
CHECK_DEADLOCK FALSE
