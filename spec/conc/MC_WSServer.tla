----------------------------- MODULE MC_WSServer -----------------------------
(***************************************************************************)
(* Model checking for C19: a client that sends every message sequence of   *)
(* length <= MaxIn over the protocol alphabet, an engine that produces     *)
(* every interleaving of <= MaxEng events (data, finished round, result,   *)
(* error), the init timeout, and the server model WSServerImpl running      *)
(* concurrently (connection handler and one goroutine per operation, each   *)
(* writing its messages one at a time), composed with the protocol acceptor. *)
(*   Impl = "ref":    the acceptor never rejects (OutputAllowed,            *)
(*                    NoStartBeforeInit, OneTerminal, NothingAfterTerminal, *)
(*                    NeverWedged are invariants), no deadlock, every        *)
(*                    obligation is eventually discharged (Answered).        *)
(*   Impl = "pinned": negative control - TLC must find the rejected          *)
(*                    behaviours of the code as it is (D8).                  *)
(***************************************************************************)
EXTENDS WSServerTransportWS, WSServerGraphQLWS, WSServerImpl
CONSTANTS MaxIn, MaxEng
VARIABLES mon,    \* the acceptor
          s,      \* the server
          hq,     \* messages the connection handler still has to write for the current client message
          hbusy,  \* the handler is dealing with a client message
          eq,     \* per executor: messages its goroutine still has to write for the current engine event
          ew,     \* per executor: the engine event being dealt with ("" = none)
          nin, neng, pos, gone
vars == <<mon, s, hq, hbusy, eq, ew, nin, neng, pos, gone>>

Step(m, e) == IF Proto = "tws" THEN TwsStep(m, e) ELSE GwsStep(m, e)

Init ==
  /\ mon = Step(InitMon(Proto), Ev("rd", "", "", 0, 0, 0))     \* the handler starts by reading
  /\ s = InitSrv
  /\ hq = <<>> /\ hbusy = FALSE
  /\ eq = [k \in KS |-> <<>>] /\ ew = [k \in KS |-> ""]
  /\ nin = 0 /\ neng = 0 /\ pos = 1 /\ gone = FALSE

\* ---- client ------------------------------------------------------------------
\* graphql-ws: error(id) is both the refusal of a duplicate start and the operation's own error; a behaviour in
\* which both are in flight at once cannot be judged by anybody (nor by the client) and is left out
Ambiguous(sym) == Proto = "gws" /\ sym \in SubSyms /\ \E k \in KS : ew[k] = "error" /\ s.ex[k].id = SubId(sym)

ClientSend(sym) ==
  /\ ~hbusy /\ ~s.closed /\ ~gone /\ nin < MaxIn
  /\ ~Ambiguous(sym)
  /\ LET r == React(s, sym, pos) IN
       /\ s' = r.s
       /\ hq' = r.outs
  /\ mon' = Step(mon, InEv(sym, pos))
  /\ hbusy' = TRUE /\ nin' = nin + 1 /\ pos' = pos + 1
  /\ UNCHANGED <<eq, ew, neng, gone>>

ClientGone ==
  /\ ~hbusy /\ ~s.closed /\ ~gone
  /\ gone' = TRUE
  /\ s' = Shut(s)
  /\ mon' = Step(Step(mon, Ev("eof", "", "", 0, 0, 0)), Ev("exit", "", "", 0, 0, 0))
  /\ UNCHANGED <<hq, hbusy, eq, ew, nin, neng, pos>>

\* the transport breaks for good: the handler reads errors until its read-error time-out ends it
Broken ==
  /\ ~hbusy /\ ~s.closed /\ ~gone
  /\ gone' = TRUE
  /\ s' = Shut(s)
  /\ mon' = Step(Step(Step(Step(mon, Ev("broken", "", "", 0, 0, 0)), InEv("readerr", pos)), Ev("rd", "", "", 0, 0, 0)),
                  Ev("exit", "", "", 0, 0, 0))
  /\ UNCHANGED <<hq, hbusy, eq, ew, nin, neng, pos>>

\* ---- connection handler ----------------------------------------------------------
HandlerWrite ==
  /\ hbusy /\ hq # <<>>
  /\ mon' = Step(mon, Head(hq))
  /\ s' = Apply(s, <<Head(hq)>>)
  /\ hq' = Tail(hq)
  /\ UNCHANGED <<hbusy, eq, ew, nin, neng, pos, gone>>

HandlerNext ==
  /\ hbusy /\ hq = <<>>
  /\ mon' = Step(mon, IF s.closed THEN Ev("exit", "", "", 0, 0, 0) ELSE Ev("rd", "", "", 0, 0, 0))
  /\ hbusy' = FALSE
  /\ UNCHANGED <<s, hq, eq, ew, nin, neng, pos, gone>>

InitTimeout ==
  /\ Proto = "tws" /\ ~hbusy /\ ~s.closed /\ ~s.inited /\ ~gone
  /\ s' = Shut(s)
  /\ mon' = Step(Step(mon, CloseEv(4408)), Ev("exit", "", "", 0, 0, 0))
  /\ UNCHANGED <<hq, hbusy, eq, ew, nin, neng, pos, gone>>

\* ---- operation goroutines ---------------------------------------------------------
ExecStart(k) ==
  /\ s.ex[k].st = "starting"
  /\ s' = [s EXCEPT !.ex[k].st = "exec"]
  /\ mon' = Step(mon, Ev("exec", s.ex[k].kind, s.ex[k].id, k, 0, 0))
  /\ UNCHANGED <<hq, hbusy, eq, ew, nin, neng, pos, gone>>

EngineEv(k, what) ==
  /\ neng < MaxEng /\ ~gone
  /\ s.ex[k].st = "exec" /\ ew[k] = "" /\ what \in Whats(s.ex[k].kind)
  /\ ~s.ex[k].canc \/ ~s.ex[k].infl
  /\ ~(Proto = "gws" /\ what = "error" /\ Opt("error", s.ex[k].id) \in mon.popt)
  /\ s' = [s EXCEPT !.ex[k].infl = s.ex[k].canc]
  /\ eq' = [eq EXCEPT ![k] = EngOuts(s, k, what)]
  /\ ew' = [ew EXCEPT ![k] = what]
  /\ mon' = Step(mon, Ev("eng", what, s.ex[k].id, k, s.ex[k].n + 1, 0))
  /\ neng' = neng + 1
  /\ UNCHANGED <<hq, hbusy, nin, pos, gone>>

\* the reference server writes a message of an operation only while the operation still holds its id
\* (checked atomically with the write) and releases the id together with the terminal message;
\* the pinned server writes whatever the goroutine produced as long as the transport is open
EngineWrite(k) ==
  /\ ew[k] # "" /\ eq[k] # <<>>
  /\ LET o == Head(eq[k])
         id == s.ex[k].id
         holds == s.reg[id] = k /\ ~s.closed
         terminal == o.a \in {"error", "complete"}
     IN
     IF Impl = "ref"
     THEN IF holds
          THEN /\ mon' = Step(mon, o)
               /\ s' = IF terminal THEN [s EXCEPT !.reg[id] = 0] ELSE s
          ELSE mon' = mon /\ s' = s
     ELSE /\ mon' = IF s.closed \/ (Has("D8b") /\ s.ex[k].canc) THEN mon ELSE Step(mon, o)
          /\ s' = IF Has("F5") /\ terminal /\ s.ex[k].kind = "q" /\ s.reg[id] = k THEN [s EXCEPT !.reg[id] = 0] ELSE s
  /\ eq' = [eq EXCEPT ![k] = Tail(eq[k])]
  /\ UNCHANGED <<hq, hbusy, ew, nin, neng, pos, gone>>

EngineDone(k) ==
  /\ ew[k] # "" /\ eq[k] = <<>>
  /\ mon' = Step(mon, Ev("engdone", "", s.ex[k].id, k, 0, 0))
  /\ s' = AfterEng(s, k, ew[k])
  /\ ew' = [ew EXCEPT ![k] = ""]
  /\ UNCHANGED <<hq, hbusy, eq, nin, neng, pos, gone>>

Server == HandlerWrite \/ HandlerNext \/ \E k \in KS : ExecStart(k) \/ EngineWrite(k) \/ EngineDone(k)
\* graphql-ws treats everything it does not know alike: one representative per class keeps the model small
\* (the two-operation document behaves like sub1q / sub2s for the protocol: left to the generator)
MCAlphabet == (IF Proto = "gws" THEN Alphabet \ {"pong", "unknown", "binary"} ELSE Alphabet) \ {"sub1dq", "sub2ds"}
Env    == (\E sym \in MCAlphabet : ClientSend(sym)) \/ ClientGone \/ InitTimeout \/ Broken
          \/ \E k \in KS, what \in {"data", "fin", "error", "result", "qflush"} : EngineEv(k, what)

\* the end of a behaviour: the connection is over and every goroutine has written what it had
Over == (s.closed \/ gone) /\ ~hbusy /\ \A k \in KS : ew[k] = "" /\ s.ex[k].st # "starting"
Terminated == Over /\ UNCHANGED vars

Next == Server \/ Env \/ Terminated
Spec == Init /\ [][Next]_vars /\ WF_vars(Server)

\* ---- properties ------------------------------------------------------------------------
OutputAllowed        == OutputAllowedP(mon)
NoStartBeforeInit    == NoStartBeforeInitP(mon)
OneTerminal          == OneTerminalP(mon)
NothingAfterTerminal == NothingAfterTerminalP(mon)
NeverWedged          == NeverWedgedP(mon)
Accepted             == mon.bad = ""
\* the handler never goes back to reading while it owes the client a reply; every reply comes
Answered == (mon.pend # "none") ~> (mon.pend = "none" \/ mon.bad # "")
\* the acceptor follows the server: it knows the connection is closed exactly when the server closed it
Tracks == (mon.bad = "" /\ ~hbusy) => ((mon.conn = "closed" \/ mon.hs = "exited") = (s.closed \/ gone))
\* an operation the acceptor considers terminal holds no id in the reference server (graphql-transport-ws only:
\* in graphql-ws the refusal of a duplicate start, error(id), cannot be told from the operation's own error)
Released == (Impl = "ref" /\ Proto = "tws" /\ mon.bad = "") =>
              \A id \in OpIds : mon.op[id].st = "terminal" => s.reg[id] = 0
=============================================================================
