CONSTANTS
  N = 3
  NK = 2
  MaxConn = 3
  MaxFrames = 3
  MaxCancels = 3
  Fixes = {}
  CfgSet <- ConfigsX
  MaxSteps = 12
SPECIFICATION GenSpec
CONSTRAINT GenConstraint
CHECK_DEADLOCK FALSE
