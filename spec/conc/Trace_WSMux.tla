---------------------------- MODULE Trace_WSMux ----------------------------
(* Trace validation for C18: the combined log recorded by harness/cmd/wsmux   *)
(* (caller actions, Subscribe results, handler callbacks, what the upstream   *)
(* server saw and did, Stats()) must be a behaviour of WSMux.                 *)
(*                                                                            *)
(* Environment actions and observations consume one line each; the steps of   *)
(* the code that cannot be seen from outside (getOrDial's choice, the dial's  *)
(* progress, close(result.done), map updates, registration, frames dropped    *)
(* for unknown ids, shutdown's bookkeeping, idle timers) are composed         *)
(* silently.  All invariants of WSMux are evaluated in every state of every   *)
(* trace.  Failures of a subscriber that the specification can only explain   *)
(* by somebody else's cancellation (blame in Foreign) are reported by         *)
(* Observe as FINDING lines: they are the known shapes of the defect in the   *)
(* code as it is; everything the specification cannot explain at all stops    *)
(* the validation (TRACE_STUCK_AT_LINE / violated invariant).                 *)
EXTENDS WSMux, Json, TLCExt, IOUtils
\* the log is parsed once (TraceInit) and kept in TLC register 2; register 1 is the high-water mark
TraceLog == TLCGet(2)
VARIABLES l,     \* next line
          sid,   \* server-side connection number -> connection of the specification (None = not seen yet)
          tid,   \* id of the current trace
          rets,  \* subscribers whose Subscribe call was seen returning
          unsubs \* subscribers whose unsubscribe function was seen returning
tvars == <<vars, l, sid, tid, rets, unsubs>>
Ev == TraceLog[l]
IsEvent(e) == l <= Len(TraceLog) /\ Ev.ev = e /\ l' = l + 1
Keep == UNCHANGED <<sid, tid, rets, unsubs>>
Same == UNCHANGED vars

TraceInit ==
  /\ l = 1
  /\ TLCSet(1, 0)
  /\ TLCSet(2, ndJsonDeserialize(IOEnv.TRACE))
  /\ Init
  /\ cfg = [key |-> [s \in Subs |-> 1], idle |-> "zero", bad |-> NoBad, ping |-> FALSE, hold |-> FALSE, reent |-> FALSE]
  /\ sid = [n \in Conn |-> None]
  /\ tid = "none"
  /\ rets = {} /\ unsubs = {}

T_Reset ==
  /\ IsEvent("reset")
  /\ IF l = 1 THEN TRUE ELSE TraceLog[l - 1].ev = "end"
  /\ cfg' = [key |-> [s \in Subs |-> IF s <= Len(Ev.key) THEN Ev.key[s] ELSE 1], idle |-> Ev.idle,
              bad |-> [s \in Subs |-> IF s <= Len(Ev.bad) THEN Ev.bad[s] ELSE FALSE], ping |-> Ev.ping,
              hold |-> Ev.hold, reent |-> Ev.reent]
  /\ sub' = [s \in Subs |-> SubInit]
  /\ conn' = [c \in Conn |-> ConnInit]
  /\ subs' = [c \in Conn |-> [i \in Subs |-> None]]
  /\ dialing' = [k \in Keys |-> None]
  /\ conns' = [k \in Keys |-> None]
  /\ down' = [c \in Conn |-> <<>>]
  /\ hlog' = [s \in Subs |-> <<>>]
  /\ sent' = [s \in Subs |-> <<>>]
  /\ nconn' = 0 /\ nframes' = 0 /\ ncancel' = 0
  /\ sid' = [n \in Conn |-> None]
  /\ tid' = Ev.id
  /\ rets' = {} /\ unsubs' = {}

\* ---- callers ---------------------------------------------------------------
T_Call == IsEvent("call") /\ Ev.s \in Subs /\ Call(Ev.s) /\ Keep

\* logged before cancel() is called: until "cancel.done" a write that was already under way may still succeed
T_Cancel ==
  /\ IsEvent("cancel") /\ Ev.s \in Subs /\ ~sub[Ev.s].ctxc
  /\ sub' = [sub EXCEPT ![Ev.s].ctxc = TRUE, ![Ev.s].cpend = TRUE]
  /\ UNCHANGED <<cfg, conn, subs, dialing, conns, down, hlog, sent, nconn, nframes, ncancel>>
  /\ Keep

T_CancelDone ==
  /\ IsEvent("cancel.done") /\ Ev.s \in Subs
  /\ sub' = [sub EXCEPT ![Ev.s].cpend = FALSE]
  /\ UNCHANGED <<cfg, conn, subs, dialing, conns, down, hlog, sent, nconn, nframes, ncancel>>
  /\ Keep

\* Subscribe returned (observation; the step that ended the call - write, failed registration, woken waiter,
\* failed dial - happened silently before, its effects may already have been seen by the server)
T_Ret ==
  /\ IsEvent("ret") /\ Ev.s \in Subs /\ Ev.s \notin rets
  \* x = "fail": the data-source wrapper (level "ds") reports a failed call without the error class
  /\ IF Ev.x = "ok" THEN sub[Ev.s].pc = "ok" ELSE sub[Ev.s].pc = "failed" /\ (Ev.x = "fail" \/ sub[Ev.s].err = Ev.x)
  /\ rets' = rets \cup {Ev.s}
  /\ Same /\ UNCHANGED <<sid, tid, unsubs>>

\* handler callback
T_Handler ==
  /\ IsEvent("h") /\ Ev.s \in Subs
  /\ IF Ev.k = "connerr"
     THEN \E c \in Conn : ShutNotify(c, Ev.s) /\ conn[c].code = Ev.n     \* with the close code the upstream sent
     ELSE \E c \in Conn :
            /\ DispatchTo(c)
            /\ subs[c][Head(down[c]).id] = Ev.s
            /\ Head(down[c]).k = Ev.k
            /\ Ev.k = "complete" \/ (Head(down[c]).n = Ev.n /\ Head(down[c]).id = Ev.id)
            /\ Head(down[c]).v = Ev.v      \* the payload as a whole: its field set, all parts naming this frame
  /\ Keep

\* the unsubscribe function returned (its effects - stop frame, removal, maybe shutdown - are visible earlier)
T_Unsub == /\ IsEvent("unsub") /\ Ev.s \in Subs /\ sub[Ev.s].unsub
           /\ unsubs' = unsubs \cup {Ev.s} /\ Same /\ UNCHANGED <<sid, tid, rets>>

\* ---- the server: observations ----------------------------------------------
Bound(n) == n \in Conn /\ sid[n] # None

\* a new request arrives: it belongs to a dial the server has not seen yet; the option tuple the server saw
\* (endpoint, headers, offered subprotocol; 0 = undecided before connection_init) is the dialler's
T_SrvReq ==
  /\ IsEvent("srv.req") /\ Ev.c \in Conn /\ sid[Ev.c] = None
  /\ \E d \in Conn : /\ conn[d].stage # "none" /\ conn[d].srv # "none"
                     /\ \A n \in Conn : sid[n] # d
                     /\ Ev.key = 0 \/ conn[d].key = Ev.key
                     /\ sid' = [sid EXCEPT ![Ev.c] = d]
  /\ Same /\ UNCHANGED <<tid, rets, unsubs>>

InitSent(d) == conn[d].stage = "init" \/ conn[d].res \in {"ok", "initctx", "init"}

\* connection_init with the init payload of the dialler's option tuple
T_SrvInit ==
  /\ IsEvent("srv.init") /\ Bound(Ev.c)
  /\ InitSent(sid[Ev.c]) /\ conn[sid[Ev.c]].key = Ev.key
  /\ Same /\ Keep

\* a subscribe / stop frame: only from subscribers that hold this very connection
T_SrvRecv ==
  /\ IsEvent("srv.recv") /\ Bound(Ev.c) /\ Ev.s \in Subs
  /\ \/ Ev.k = "sub" /\ Ev.s \in conn[sid[Ev.c]].ssubs
     \/ Ev.k = "stop" /\ sub[Ev.s].unsub /\ sub[Ev.s].tgt = sid[Ev.c]
  /\ Same /\ Keep

\* the server lost the connection: the client must have closed it (or the server did so itself)
T_SrvGone ==
  /\ IsEvent("srv.gone") /\ Bound(Ev.c)
  /\ IF Ev.x = "server" THEN conn[sid[Ev.c]].srv \in {"closed", "rejected"}
     ELSE SrvGone(sid[Ev.c]) \/ conn[sid[Ev.c]].srv = "closed"
  /\ Same /\ Keep

\* ---- the server: scripted actions ------------------------------------------
T_SrvUpgrade  == IsEvent("srv.upgrade") /\ Bound(Ev.c) /\ SrvUpgrade(sid[Ev.c]) /\ Keep
T_SrvReject   == IsEvent("srv.reject") /\ Bound(Ev.c) /\ SrvReject(sid[Ev.c]) /\ Keep
T_SrvAck      == IsEvent("srv.ack") /\ Bound(Ev.c) /\ SrvAck(sid[Ev.c]) /\ Keep
T_SrvInitFail == IsEvent("srv.initfail") /\ Bound(Ev.c) /\ SrvInitFail(sid[Ev.c]) /\ Keep
T_SrvClose    == IsEvent("srv.close") /\ Bound(Ev.c) /\ SrvClose(sid[Ev.c], Ev.n) /\ Keep
T_SrvHold     == IsEvent("srv.hold") /\ Bound(Ev.c) /\ SrvHoldClose(sid[Ev.c]) /\ Keep
T_SrvRelease  == IsEvent("srv.release") /\ Bound(Ev.c) /\ SrvRelease(sid[Ev.c]) /\ Keep
T_SrvMute     == IsEvent("srv.mute") /\ Bound(Ev.c) /\ SrvMute(sid[Ev.c]) /\ Keep
T_SrvSend ==
  /\ IsEvent("srv.send") /\ Bound(Ev.c) /\ Ev.s \in Subs /\ Ev.k \in Kinds
  /\ Ev.n = Len(sent[Ev.s]) + 1
  /\ SrvSend(sid[Ev.c], Ev.s, Ev.k, Ev.v, Ev.sc, Ev.sp)
  /\ Keep

\* ---- time, bookkeeping, end -------------------------------------------------
\* the driver found the process quiet (no TCP byte or close in flight, no runnable goroutine): the specification has
\* no enabled internal step left either, and every Subscribe call that is over has been seen returning
Returned == /\ \A s \in Subs : sub[s].pc \in {"ok", "failed"} => s \in rets
            \* ... and every unsubscribe that has happened has also returned (a cancel stuck behind a lock is a stall)
            /\ \A s \in Subs : sub[s].unsub =>
                  \/ s \in unsubs
                  \/ sub[s].tgt # None /\ Blocked(sub[s].tgt) /\ conn[sub[s].tgt].shut = "notify"   \* inside the held close handshake
T_Quiet == IsEvent("quiet") /\ Quiescent /\ Returned /\ Same /\ Keep

T_IdleWait == IsEvent("idlewait") /\ TimersDone /\ Same /\ Keep

T_Stats ==
  /\ IsEvent("stats")
  /\ Cardinality({k \in Keys : conns[k] # None}) = Ev.n
  /\ Same /\ Keep

\* connections the server still holds = dials that reached it, were not ended by it and not closed by the client
SrvHolds(d) == conn[d].srv \in {"gate_up", "gate_ack", "open"} /\ ~SrvGone(d)
T_SrvOpen ==
  /\ IsEvent("srv.open")
  /\ Cardinality({d \in Conn : SrvHolds(d)}) = Ev.n
  /\ Same /\ Keep

\* known shapes of "a cancel of somebody else failed this subscriber" are reported, not fatal
Observe ==
  \A s \in Subs : sub[s].blame \in Foreign \cup {"spurious_ping"} => PrintT(<<"FINDING", tid, sub[s].blame, s>>)

\* the driver found the process quiet after its epilogue: the specification must agree that nothing is left to do
T_End ==
  /\ IsEvent("end")
  /\ Quiescent /\ TimersDone /\ Returned
  /\ \A s \in Subs : sub[s].pc = "idle" \/ s \in rets
  /\ Observe
  /\ Same /\ Keep

\* ---- unobservable steps ------------------------------------------------------
Silent ==
  /\ \/ \E s \in Subs : \/ GetOrDial(s) \/ WakeDoneOk(s) \/ WakeDoneErr(s) \/ WakeDoneRetry(s) \/ WakeCtx(s)
                        \/ RegisterOk(s) \/ RegisterClosed(s) \/ RegisterRetry(s)
                        \/ WriteOk(s) \/ WriteEncodeFail(s) \/ WriteDead(s) \/ WriteCancelSafe(s) \/ WriteCancelKillOk(s) \/ WriteCancelKillErr(s)
                        \/ Unsubscribe(s)
     \/ \E c \in Conn : \/ DialUpgraded(c) \/ DialRejected(c) \/ DialAcked(c) \/ DialInitFailed(c) \/ DialCtx(c)
                        \/ PubDone(c) \/ PubMapOk(c) \/ PubMapErr(c)
                        \/ DispatchDrop(c) \/ ReadClose(c) \/ ReadKilled(c) \/ PingExpire(c) \/ PingSpurious(c) \/ ShutEnd(c) \/ IdleFire(c)
  /\ l <= Len(TraceLog)
  /\ UNCHANGED <<l, sid, tid, rets, unsubs>>

TraceNext ==
  \/ T_Reset \/ T_Call \/ T_Cancel \/ T_CancelDone \/ T_Ret \/ T_Handler \/ T_Unsub
  \/ T_SrvReq \/ T_SrvInit \/ T_SrvRecv \/ T_SrvGone
  \/ T_SrvUpgrade \/ T_SrvReject \/ T_SrvAck \/ T_SrvInitFail \/ T_SrvClose \/ T_SrvMute \/ T_SrvHold \/ T_SrvRelease \/ T_SrvSend
  \/ T_Quiet \/ T_IdleWait \/ T_Stats \/ T_SrvOpen \/ T_End
  \/ Silent

TraceSpec == TraceInit /\ [][TraceNext]_tvars

\* high-water mark of consumed lines (robust against branching)
HighWater == TLCSet(1, IF l > TLCGet(1) THEN l ELSE TLCGet(1))
TraceAccepted ==
  IF TLCGet(1) = Len(TraceLog) + 1 THEN TRUE
  ELSE /\ PrintT(<<"TRACE_STUCK_AT_LINE", TLCGet(1)>>)
       /\ FALSE
=============================================================================
