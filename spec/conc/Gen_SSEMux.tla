----------------------------- MODULE Gen_SSEMux -----------------------------
(* Generator for the SSE part of C18: schedules of environment actions over   *)
(* SSEMux, taken in quiescent states only (see Gen_WSMux).                     *)
EXTENDS SSEMux, Json
CONSTANT MaxSteps
VARIABLE hist
Act(a, s, c, k) == [a |-> a, s |-> s, c |-> c, k |-> k]
Log(a, s, c, k) == hist' = Append(hist, Act(a, s, c, k))
\* the harness addresses a stream by the connection number of the specification = its subscriber (every subscriber dials)
GenEnv ==
  \/ \E s \in Subs : /\ \A q \in 1..(s - 1) : st[q].pc # "idle"
                     /\ SCall(s) /\ Log("Call", s, 0, "")
  \/ \E s \in Subs : SCancel(s) /\ Log("Cancel", s, 0, "")
  \/ \E s \in Subs : \/ SrvRespond(s) /\ Log("Upgrade", 0, s, "")
                     \/ SrvRejectS(s) /\ Log("Reject", 0, s, "")
                     \/ SrvEnd(s) /\ Log("Close", 0, s, "")
  \/ \E s \in Subs, k \in Kinds : SrvEvent(s, k) /\ Log("Send", s, s, k)
GenInit == SInit /\ hist = <<>>
GenNext == \/ (\E s \in Subs : SInternal(s)) /\ UNCHANGED hist
           \/ SQuiescent /\ Len(hist) < MaxSteps /\ GenEnv
GenSpec == GenInit /\ [][GenNext]_<<svars, hist>>
Emit == IF SQuiescent /\ Len(hist) > 0
        THEN PrintT(ToJson([key |-> [s \in Subs |-> 1], idle |-> "zero", steps |-> hist, dialler |-> [s \in Subs |-> s],
                            exp |-> [s \in Subs |-> [pc |-> st[s].pc, err |-> st[s].err, h |-> hlog[s]]]]))
        ELSE TRUE
GenConstraint == Emit
=============================================================================
