------------------------- MODULE SingleFlightInbound -------------------------
(***************************************************************************)
(* De-duplication of whole client operations                               *)
(*   v2/pkg/engine/resolve/inbound_request_singleflight.go                 *)
(*   v2/pkg/engine/resolve/resolve.go  ArenaResolveGraphQLResponse         *)
(*                                                                         *)
(* Grain: one action per stretch of code between two consecutive hook      *)
(* points of one request goroutine (build tag verif) - these are exactly   *)
(* the steps the gate scheduler of the harness can force, and exactly the  *)
(* events the trace specification consumes (one event per action).         *)
(*                                                                         *)
(*   start --Arrive--> sfi.loaded(shared?) | ds.load (ineligible)          *)
(*   leader:   sfi.loaded(0) --BeginWork--> ds.load --EndWork-->            *)
(*             sfi.fin.deleted(kind) --FinCheck--> sfi.fin.checked(has)     *)
(*             --FinClose--> sfi.fin.closed --Return--> return              *)
(*   follower: sfi.loaded(1) --Register--> sfi.registered --Wake-->         *)
(*             sfi.woke(done|ctx) --AfterWoke--> return | sfi.loaded (retry)*)
(*                                                                         *)
(* The model describes the code AFTER the two fix: commits (a follower that *)
(* wakes with neither data nor error starts over; a cancelled leader        *)
(* abandons its entry).  Setting Fixed = FALSE gives the pinned behaviour   *)
(* (follower falls through to the leader path; cancelled leader publishes)  *)
(* on which TLC finds the double close and the foreign-cancel behaviours.   *)
(***************************************************************************)
EXTENDS Integers, Sequences, FiniteSets, TLC

CONSTANTS N,          \* number of requests
          Fixed,      \* TRUE: protocol after the fix commits
          MaxCancels  \* bound on environment cancellations

Req  == 1..N
Keys == 1..N
None == 0

VARIABLES
  cfg,        \* [key: Req -> Keys, elig: Req -> BOOLEAN, work: Keys -> {"ok","err"}]  (fixed after Init)
  table,      \* Keys -> Req \cup {None}: the in-flight entry stored under a key (entry id = creating request)
  done,       \* entry -> BOOLEAN            Done channel closed
  pub,        \* entry -> "none"|"data"|"err" what the leader published
  pubc,       \* entry -> content published ("solo" | "otherdata")
  followers,  \* entry -> Nat                 followerCount
  pc,         \* Req -> control state
  mine,       \* Req -> entry the request leads / follows (None = not de-duplicated)
  lead,       \* Req -> BOOLEAN               request is the leader of mine[r]
  content,    \* Req -> what the request rendered itself: "none" | "solo" | "otherdata" | "upstream"
  cancelled,  \* Req -> BOOLEAN
  out,        \* Req -> "none" | "solo" | "upstream" | "ctx" | "otherdata" | "panic"
  panicked,   \* BOOLEAN: close of a closed channel happened
  ncancel     \* number of Cancel steps so far

vars == <<cfg, table, done, pub, pubc, followers, pc, mine, lead, content, cancelled, out, panicked, ncancel>>

Configs ==
  { c \in [key: [Req -> Keys], elig: [Req -> BOOLEAN], work: [Keys -> {"ok", "err"}]] :
       \* symmetry breaking: request i uses a key <= i, keys are used densely
       /\ \A r \in Req : c.key[r] <= r
       /\ \A r \in Req : c.key[r] = 1 \/ \E q \in Req : q < r /\ c.key[q] = c.key[r] - 1
       /\ \A k \in Keys : (\A r \in Req : c.key[r] # k) => c.work[k] = "ok" }

Init ==
  /\ cfg \in Configs
  /\ table = [k \in Keys |-> None]
  /\ done = [e \in Req |-> FALSE]
  /\ pub = [e \in Req |-> "none"]
  /\ pubc = [e \in Req |-> "none"]
  /\ followers = [e \in Req |-> 0]
  /\ pc = [r \in Req |-> "start"]
  /\ mine = [r \in Req |-> None]
  /\ lead = [r \in Req |-> FALSE]
  /\ content = [r \in Req |-> "none"]
  /\ cancelled = [r \in Req |-> FALSE]
  /\ out = [r \in Req |-> "none"]
  /\ panicked = FALSE
  /\ ncancel = 0

Key(r) == cfg.key[r]

\* ---- LoadOrStore: used by Arrive and by the retry of a follower ---------
LoadOrStore(r) ==
  IF table[Key(r)] = None
  THEN /\ table' = [table EXCEPT ![Key(r)] = r]
       /\ mine' = [mine EXCEPT ![r] = r]
       /\ lead' = [lead EXCEPT ![r] = TRUE]
       /\ pc' = [pc EXCEPT ![r] = "loadedL"]
  ELSE /\ table' = table
       /\ mine' = [mine EXCEPT ![r] = table[Key(r)]]
       /\ lead' = [lead EXCEPT ![r] = FALSE]
       /\ pc' = [pc EXCEPT ![r] = "loadedF"]

Arrive(r) ==
  /\ pc[r] = "start"
  /\ IF cfg.elig[r]
     THEN LoadOrStore(r)
     ELSE /\ pc' = [pc EXCEPT ![r] = "loading"]     \* mutation / subscription: never de-duplicated
          /\ UNCHANGED <<table, mine, lead>>
  /\ UNCHANGED <<cfg, done, pub, pubc, followers, content, cancelled, out, panicked, ncancel>>

BeginWork(r) ==
  /\ pc[r] = "loadedL"
  /\ pc' = [pc EXCEPT ![r] = "loading"]
  /\ UNCHANGED <<cfg, table, done, pub, pubc, followers, mine, lead, content, cancelled, out, panicked, ncancel>>

Register(r) ==
  /\ pc[r] = "loadedF"
  /\ followers' = [followers EXCEPT ![mine[r]] = @ + 1]
  /\ pc' = [pc EXCEPT ![r] = "registered"]
  /\ UNCHANGED <<cfg, table, done, pub, pubc, mine, lead, content, cancelled, out, panicked, ncancel>>

\* select { <-Done ; <-ctx.Done() }: either ready case may be chosen
WakeDone(r) ==
  /\ pc[r] = "registered"
  /\ done[mine[r]]
  /\ pc' = [pc EXCEPT ![r] = "wokeD"]
  /\ UNCHANGED <<cfg, table, done, pub, pubc, followers, mine, lead, content, cancelled, out, panicked, ncancel>>

WakeCtx(r) ==
  /\ pc[r] = "registered"
  /\ cancelled[r]
  /\ pc' = [pc EXCEPT ![r] = "wokeC"]
  /\ UNCHANGED <<cfg, table, done, pub, pubc, followers, mine, lead, content, cancelled, out, panicked, ncancel>>

AfterWokeCtx(r) ==
  /\ pc[r] = "wokeC"
  /\ out' = [out EXCEPT ![r] = "ctx"]
  /\ pc' = [pc EXCEPT ![r] = "returned"]
  /\ UNCHANGED <<cfg, table, done, pub, pubc, followers, mine, lead, content, cancelled, panicked, ncancel>>

\* follower after <-Done: shared error, shared bytes, or (nothing published) start over
AfterWokeErr(r) ==
  /\ pc[r] = "wokeD" /\ pub[mine[r]] = "err"
  /\ out' = [out EXCEPT ![r] = "upstream"]
  /\ pc' = [pc EXCEPT ![r] = "returned"]
  /\ UNCHANGED <<cfg, table, done, pub, pubc, followers, mine, lead, content, cancelled, panicked, ncancel>>

AfterWokeData(r) ==
  /\ pc[r] = "wokeD" /\ pub[mine[r]] = "data"
  /\ out' = [out EXCEPT ![r] = pubc[mine[r]]]
  /\ pc' = [pc EXCEPT ![r] = "returned"]
  /\ UNCHANGED <<cfg, table, done, pub, pubc, followers, mine, lead, content, cancelled, panicked, ncancel>>

AfterWokeNothing(r) ==
  /\ pc[r] = "wokeD" /\ pub[mine[r]] = "none"
  /\ IF Fixed
     THEN LoadOrStore(r)                              \* retry
     ELSE /\ pc' = [pc EXCEPT ![r] = "loading"]       \* pinned code: falls through to the leader path
          /\ lead' = [lead EXCEPT ![r] = TRUE]        \* ... of somebody else's entry
          /\ UNCHANGED <<table, mine>>
  /\ UNCHANGED <<cfg, done, pub, pubc, followers, content, cancelled, out, panicked, ncancel>>

\* the data source answers, the response is rendered and written to the request's own writer,
\* and (leader) the entry is deleted from the table -- by key, whatever is stored there
Rendered(r) == IF cfg.work[Key(r)] = "err" THEN "upstream"
               ELSE IF cancelled[r] THEN "otherdata" ELSE "solo"

EndWork(r) ==
  /\ pc[r] = "loading"
  /\ content' = [content EXCEPT ![r] = Rendered(r)]
  /\ IF mine[r] = None
     THEN /\ out' = [out EXCEPT ![r] = Rendered(r)]
          /\ pc' = [pc EXCEPT ![r] = "returned"]
          /\ table' = table
     ELSE /\ table' = [table EXCEPT ![Key(r)] = None]
          /\ out' = out
          /\ pc' = [pc EXCEPT ![r] =
                     IF Rendered(r) = "upstream" THEN "finErrDeleted"
                     ELSE IF Fixed /\ cancelled[r] THEN "finAbDeleted"
                     ELSE "finOkDeleted"]
  /\ UNCHANGED <<cfg, done, pub, pubc, followers, mine, lead, cancelled, panicked, ncancel>>

FinCheck(r) ==
  /\ pc[r] = "finOkDeleted"
  /\ IF followers[mine[r]] > 0
     THEN /\ pub' = [pub EXCEPT ![mine[r]] = "data"]
          /\ pubc' = [pubc EXCEPT ![mine[r]] = content[r]]
     ELSE UNCHANGED <<pub, pubc>>
  /\ pc' = [pc EXCEPT ![r] = "finOkChecked"]
  /\ UNCHANGED <<cfg, table, done, followers, mine, lead, content, cancelled, out, panicked, ncancel>>

FinClose(r) ==
  /\ pc[r] \in {"finOkChecked", "finErrDeleted", "finAbDeleted"}
  /\ pub' = IF pc[r] = "finErrDeleted" THEN [pub EXCEPT ![mine[r]] = "err"] ELSE pub
  /\ IF done[mine[r]]
     THEN /\ panicked' = TRUE                         \* close of closed channel
          /\ done' = done
          /\ out' = [out EXCEPT ![r] = "panic"]
          /\ pc' = [pc EXCEPT ![r] = "returned"]
     ELSE /\ done' = [done EXCEPT ![mine[r]] = TRUE]
          /\ panicked' = panicked
          /\ out' = out
          /\ pc' = [pc EXCEPT ![r] = "finClosed"]
  /\ UNCHANGED <<cfg, table, pubc, followers, mine, lead, content, cancelled, ncancel>>

Return(r) ==
  /\ pc[r] = "finClosed"
  /\ out' = [out EXCEPT ![r] = content[r]]
  /\ pc' = [pc EXCEPT ![r] = "returned"]
  /\ UNCHANGED <<cfg, table, done, pub, pubc, followers, mine, lead, content, cancelled, panicked, ncancel>>

\* environment: the client of r disconnects
Cancel(r) ==
  /\ ~cancelled[r] /\ pc[r] # "returned" /\ ncancel < MaxCancels
  /\ cancelled' = [cancelled EXCEPT ![r] = TRUE]
  /\ ncancel' = ncancel + 1
  /\ UNCHANGED <<cfg, table, done, pub, pubc, followers, pc, mine, lead, content, out, panicked>>

ActNames == {"Arrive", "BeginWork", "Register", "WakeDone", "WakeCtx", "AfterWokeCtx", "AfterWokeErr",
             "AfterWokeData", "AfterWokeNothing", "EndWork", "FinCheck", "FinClose", "Return", "Cancel"}

Step(r, a) ==
  CASE a = "Arrive" -> Arrive(r)
    [] a = "BeginWork" -> BeginWork(r)
    [] a = "Register" -> Register(r)
    [] a = "WakeDone" -> WakeDone(r)
    [] a = "WakeCtx" -> WakeCtx(r)
    [] a = "AfterWokeCtx" -> AfterWokeCtx(r)
    [] a = "AfterWokeErr" -> AfterWokeErr(r)
    [] a = "AfterWokeData" -> AfterWokeData(r)
    [] a = "AfterWokeNothing" -> AfterWokeNothing(r)
    [] a = "EndWork" -> EndWork(r)
    [] a = "FinCheck" -> FinCheck(r)
    [] a = "FinClose" -> FinClose(r)
    [] a = "Return" -> Return(r)
    [] a = "Cancel" -> Cancel(r)

Internal(r) == \E a \in ActNames \ {"Cancel"} : Step(r, a)

Next == \E r \in Req : \E a \in ActNames : Step(r, a)

AllReturned == \A r \in Req : pc[r] = "returned"

Spec == Init /\ [][Next]_vars /\ \A r \in Req : WF_vars(Internal(r))

-----------------------------------------------------------------------------
(* Properties (C11)                                                         *)

TypeOK ==
  /\ table \in [Keys -> Req \cup {None}]
  /\ \A r \in Req : out[r] \in {"none", "solo", "upstream", "ctx", "otherdata", "panic"}

NoPanic == ~panicked

Solo(r) == IF cfg.work[Key(r)] = "err" THEN "upstream" ELSE "solo"

\* every participant that returned got what it would have got alone, or its own cancellation
Transparent ==
  \A r \in Req : pc[r] = "returned" =>
     \/ out[r] = Solo(r)
     \/ cancelled[r] /\ out[r] \in {"ctx", "otherdata"}

\* one client's disconnect never becomes another client's error
NoForeignCancel ==
  \A r \in Req : (pc[r] = "returned" /\ ~cancelled[r]) => out[r] \notin {"ctx", "otherdata"}

\* sharing only between requests with the same key, never for ineligible operations
SharedOnlyIfSameKey ==
  \A r \in Req : mine[r] # None =>
      /\ cfg.elig[r] /\ cfg.elig[mine[r]]
      /\ Key(r) = Key(mine[r])

\* a follower never consumes an unpublished buffer
NoTornBuffer ==
  \A r \in Req : (pc[r] = "returned" /\ ~lead[r] /\ mine[r] # None /\ out[r] \in {"solo", "otherdata"})
                    => pub[mine[r]] = "data" /\ done[mine[r]]

\* a leader only ever finishes its own entry (the pinned code violates this together with NoPanic)
LeaderOwnsEntry == \A r \in Req : lead[r] => mine[r] = r

\* liveness: every participant returns (checked with fairness on the internal steps, no state constraint)
EveryoneReturns == <>[]AllReturned

\* no participant is blocked forever: the only blocking step (Wake) is eventually enabled
NoWedge == \A r \in Req : pc[r] = "registered" ~> pc[r] # "registered"
=============================================================================
