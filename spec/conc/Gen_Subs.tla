------------------------------ MODULE Gen_Subs ------------------------------
(* Generator: behaviours of Subscriptions as schedules for the gate scheduler    *)
(* (harness/cmd/subs, harness/internal/gate).                                    *)
(*                                                                               *)
(* A schedule step RELEASES one actor that is parked at a point (a verif hook     *)
(* outside the locks, a harness gate, or the idle point where a harness actor     *)
(* waits for its next command) and carries the choice the environment makes       *)
(* there (the command; ok|err of Flush / Heartbeat).  A released actor runs - one  *)
(* event-grain action of Subscriptions after the other, with priority over any     *)
(* further release - until it parks again, ends, or blocks on a lock / wait group  *)
(* held by a parked actor; goroutines it spawns or unblocks run likewise.  This    *)
(* is exactly what the controller does (Step = release + settle).                  *)
(* A release of an actor whose very next action is blocked (it will sit on         *)
(* writeMu while another actor is inside the writer) is a PROBE of the mutual       *)
(* exclusion; at most MaxProbes per behaviour.                                      *)
EXTENDS Subscriptions, Json

CONSTANTS AllowCloseSub, \* the source may call updater.CloseSubscription
          MaxProbes,  \* releases of an actor that will block immediately
          SeqSetup    \* TRUE: all subscribers are added and their triggers started one after the other before anything else happens

VARIABLES rel,    \* Actors -> BOOLEAN : released and not yet parked again (running or blocked)
          pend,   \* Actors -> choice given with the last release
          hist,   \* the schedule so far
          nprobe
gvars == <<vars, rel, pend, hist, nprobe>>

IdlePCs == {"c.idle0", "c.idle1", "s.idle", "s.idle2", "env", "x.idle"}
ParkPCs == {"we.in", "u.fetch", "up.fechk", "g.hook", "h.hook", "h.werr", "td.close", "co.chk", "er.chk", "hb.chk", "g.werr", "u.begin", "g.begin", "g.found", "dt.begin", "sh.begin", "u.flushing"}
\* (with FixInit the trig.init.found point sits inside r.mu: the start goroutine then parks holding the lock and every
\*  release of an actor that needs r.mu meanwhile is a probe)
ParksAt(a, pc) == pc \in IdlePCs \/ pc \in ParkPCs \/ (pc = "un.begin" /\ a[1] # "c")
EndPCs == {"none", "h.end", "x.end", "c.end", "s.end", "u.end", "g.end", "sh.end", "env.end"}

Code(ch) == CASE ch = "sub" -> 1 [] ch = "unsub" -> 2 [] ch = "rmclient" -> 3 [] ch = "update" -> 4 [] ch = "complete" -> 5
              [] ch = "error" -> 6 [] ch = "hb" -> 7 [] ch = "done" -> 8 [] ch = "shutdown" -> 9 [] ch = "final" -> 9 [] ch \in {"cs1", "cs2", "cs3"} -> 10 [] ch \in {"us1", "us2", "us3"} -> 11 [] ch = "cancel" -> 12 [] OTHER -> 0
CsSub(ch) == CASE ch \in {"cs1", "us1"} -> 1 [] ch \in {"cs2", "us2"} -> 2 [] ch \in {"cs3", "us3"} -> 3 [] OTHER -> 0

Choices(a) ==
  CASE ac[a].pc = "c.idle0" -> {"sub"}
    [] ac[a].pc = "c.idle1" -> {"unsub", "rmclient"}
    [] ac[a].pc = "s.idle" -> IF a[1] = "s" THEN {"update", "complete", "error", "hb", "done"} \cup {c \in {"cs1", "cs2", "cs3", "us1", "us2", "us3"} : CsSub(c) \in Subs}
                              ELSE {"update", "done"}
    [] ac[a].pc = "s.idle2" -> {"done"}
    [] ac[a].pc = "env" -> {"shutdown", "final"}
    [] ac[a].pc = "x.idle" -> {"cancel"}
    [] ac[a].pc = "u.flushing" -> {"ok", "err"}
    [] ac[a].pc = "hb.chk" -> IF g.removed[ac[a].cur] THEN {"ok"} ELSE {"ok", "err"}
    [] OTHER -> {"-"}

NobodyRuns == \A x \in Actors : ~rel[x]
\* setup phase over: every subscriber added, every start goroutine through
SetupDone == /\ \A s \in Subs : ac[C(s)].pc \notin {"c.idle0", "c.sub", "c.added"}
             /\ \A i \in Inst : ac[G(i)].pc \in {"none", "g.end"}
InSetup(a, ch) == \/ (a[1] = "c" /\ ch = "sub" /\ \A q \in Subs : q < a[2] => (ac[C(q)].pc \in {"c.idle1", "c.wait"} /\ ac[G(q)].pc \in {"none", "g.end"}))
                  \/ a[1] = "g"

ChoiceValid(a, ch) ==
  CASE ch = "sub" -> ~o.final
    [] ch \in {"unsub", "rmclient"} -> o.nterm < MaxTerm /\ ~o.final
    [] ch \in {"complete", "error"} -> o.nsterm < MaxSrcTerm /\ SrcReady(a)
    [] ch \in {"cs1", "cs2", "cs3"} -> ~Sync(CsSub(ch)) /\ AllowCloseSub /\ o.nterm < MaxTerm /\ SrcReady(a) /\ CsSub(ch) \in g.isubs[Inst0(a)]
    [] ch = "cancel" -> o.nterm < MaxTerm /\ ~o.final /\ ac[C(a[2])].pc \in {"c.idle0", "c.wait"} /\ \A e \in Events : ac[U(a[2], e)].pc \in {"none", "u.end"}
    [] ch \in {"us1", "us2", "us3"} -> AllowCloseSub /\ SrcReady(a) /\ o.nev < MaxEvents /\ ~Sync(CsSub(ch))
    [] ch = "update" -> SrcReady(a) /\ o.nev < MaxEvents
    [] ch = "hb" -> SrcReady(a) /\ o.nhb < MaxHB
    [] ch = "done" -> SrcReady(a) /\ (ac[a].pc = "s.idle2" \/ o.nsterm < MaxSrcTerm)
    [] ch = "shutdown" -> o.nterm < MaxTerm /\ ~AllRest
    [] ch = "final" -> AllRest /\ \A s \in Subs : ac[C(s)].pc # "c.idle0"     \* no behaviours that stop before every subscriber came
    [] ch = "err" -> o.nterm < MaxTerm
    [] OTHER -> TRUE

Release(a, ch) ==
  /\ ~rel[a] /\ ParksAt(a, ac[a].pc) /\ ch \in Choices(a) /\ ChoiceValid(a, ch)
  /\ (SeqSetup /\ ~SetupDone) => InSetup(a, ch)
  /\ IF Blocked(a) THEN nprobe < MaxProbes /\ nprobe' = nprobe + 1 ELSE nprobe' = nprobe
  /\ rel' = [rel EXCEPT ![a] = TRUE]
  /\ pend' = [pend EXCEPT ![a] = ch]
  /\ hist' = Append(hist, [k |-> a[1], i |-> a[2], j |-> a[3], ch |-> ch])
  /\ UNCHANGED vars

ChoiceOK(a) ==
  /\ (lab'.n = "h.cmd" => /\ lab'.x = Code(pend[a])
                          /\ (lab'.x = 10 => lab'.z = CsSub(pend[a]))
                          /\ (lab'.x = 11 => lab'.z % 10 = CsSub(pend[a]))
                          /\ (a = ENV => lab'.y = IF pend[a] = "final" THEN 1 ELSE 0))
  /\ (lab'.n = "w.flush" => lab'.z = IF pend[a] = "err" THEN 0 ELSE 1)
  /\ (lab'.n = "w.hb" => lab'.y = IF pend[a] = "err" THEN 0 ELSE 1)

RunStep(a) ==
  /\ Micro(a) /\ ChoiceOK(a)
  /\ rel' = [x \in Actors |-> IF x = a THEN ~ParksAt(a, ac'[a].pc) /\ ac'[a].pc \notin EndPCs
                              ELSE IF ac[x].pc = "none" /\ ac'[x].pc # "none" THEN TRUE
                              ELSE rel[x]]
  /\ UNCHANGED <<pend, hist, nprobe>>

Runnable == {a \in Actors : rel[a] /\ ~Blocked(a)}

GenInit == Init /\ rel = [a \in Actors |-> FALSE] /\ pend = [a \in Actors |-> "-"] /\ hist = <<>> /\ nprobe = 0
GenNext == IF Runnable # {}
           THEN \E a \in Runnable : RunStep(a)
           ELSE \E a \in Actors : \E ch \in Choices(a) : Release(a, ch)
GenSpec == GenInit /\ [][GenNext]_gvars

\* a complete behaviour: resolver shut down, everything at rest
Done == Quiet /\ NobodyRuns
Emit == IF Done
        THEN PrintT(ToJson([key |-> cfg.key, filt |-> cfg.filt, conn |-> cfg.conn, start |-> cfg.start, fetch |-> cfg.fetch, rerr |-> cfg.rerr, hooks |-> cfg.hooks, hookfail |-> cfg.hookfail, sync |-> cfg.sync, steps |-> hist,
                            wdata |-> o.wdata, wafter |-> o.wafter # {}, stale |-> o.stale # {}, late |-> o.lateInit]))
        ELSE TRUE
GenConstraint == Emit
\* a behaviour ends with the final shutdown
StopAtDone == ~(Done /\ o.final)

\* lab is the label of the incoming transition; history of the schedule is part of the state on purpose (every distinct schedule is a state)
GenView == <<cfg, g, o, ac, rel, pend, hist, nprobe>>

NoFetch(c) == c.fetch = [s \in Subs |-> FALSE]
CfgAll(c) == TRUE
FeatNone == {}
FeatFetch == {"fetch"}
FeatErr == {"ferr", "rerr"}
FeatHooks == {"hooks"}
FeatAll == {"fetch", "ferr", "rerr", "hooks", "sync"}
FeatSync == {"sync"}
\* both subscribers of one trigger resolve a nested fetch per event
\* one trigger, both subscribers: a failing filter / a failing render on subscriber 2 only
CfgErr(c) == c.key = [s \in Subs |-> 1] /\ c.conn = [s \in Subs |-> s] /\ c.fetch = AllFalse /\ c.filt[1] = "all" /\ c.rerr[1] = FALSE
             /\ (c.filt[2] = "err" \/ c.rerr[2]) /\ c.filt[2] # "odd"
CfgNoHooks(c) == ~c.hooks /\ ~c.sync
\* subscriber 1 is synchronous; one or two triggers
CfgSync(c) == c.sync /\ c.filt = [s \in Subs |-> "all"] /\ c.conn = [s \in Subs |-> s]
\* one trigger, hookable source, every combination of failing start-up hooks
CfgHooks(c) == ~c.sync /\ c.hooks /\ c.key = [s \in Subs |-> 1] /\ c.filt = [s \in Subs |-> "all"] /\ c.conn = [s \in Subs |-> s] /\ c.fetch = AllFalse /\ c.rerr = AllFalse
CfgFetch(c) == c.key = [s \in Subs |-> 1] /\ c.filt = [s \in Subs |-> "all"] /\ c.conn = [s \in Subs |-> s] /\ c.fetch = [s \in Subs |-> TRUE]
CfgSame(c) == NoFetch(c) /\ c.key = [s \in Subs |-> 1] /\ c.filt[1] = "all" /\ c.conn = [s \in Subs |-> s]
CfgDiff(c) == NoFetch(c) /\ c.key = [s \in Subs |-> s] /\ c.filt[1] = "all" /\ c.filt[2] = "all" /\ c.conn = [s \in Subs |-> 1]
CfgNoFilt(c) == NoFetch(c) /\ \A s \in Subs : c.filt[s] = "all"
CfgRace(c) == NoFetch(c) /\ c.filt[1] = "all" /\ (c.key[NS] = 1 => c.conn[NS] = NS) /\ (c.key[NS] # 1 => c.conn[NS] = 1 /\ c.filt[NS] = "all")
\* without events the filters do not matter: one configuration per sharing shape
CfgStart(c) == NoFetch(c) /\ (\A s \in Subs : c.filt[s] = "all") /\ (c.key[NS] = 1 => c.conn[NS] = NS) /\ (c.key[NS] # 1 => c.conn[NS] = 1)
StartOK == {"ok"}
StartOkCtx == {"ok", "ctx"}
\* three subscriber slots (only sampled): no nested fetches, every sharing shape / filter / connection layout
CfgThree(c) == NoFetch(c)
StartCtx == {"ctx"}
StartFail == {"fail"}
CfgOne(c) == NoFetch(c) /\ c.key = [s \in Subs |-> 1] /\ c.filt = [s \in Subs |-> "all"] /\ c.conn = [s \in Subs |-> s]
StartAll == {"ok", "fail", "ctx"}
=============================================================================
