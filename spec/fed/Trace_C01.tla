------------------------------ MODULE Trace_C01 ------------------------------
(* Validation pass of C01 (input-quantified property: one observation per     *)
(* step).  Every NDJSON line was recorded from the REAL gateway:              *)
(*   k = "c": a client operation and what ExecutionEngine.Execute answered    *)
(*            -> must equal Exec(Mono(supergraph, universe), doc, vars)        *)
(*   k = "x": one subgraph exchange seen by the RoundTripper (request sent by *)
(*            the gateway, response given by the Go simulator)                *)
(*            -> RequestOK (valid for the subgraph's OWN schema, only fields   *)
(*               it can resolve there, representations carry a resolvable key  *)
(*               and the @requires inputs)                                    *)
(*            -> the simulator's answer is re-derived: Exec(Sub(..)) (the Go   *)
(*               simulator is not trusted)                                    *)
(* Failing lines are printed (C01_BAD) and counted; the run is accepted only  *)
(* if every line was consumed (high-water mark) and none failed.              *)
EXTENDS FedCatalog, Json, TLCExt, IOUtils
TraceLog == ndJsonDeserialize(IOEnv.TRACE)
VARIABLE ln
Ev == TraceLog[ln]

Universe(ev) == Catalog[ev.e].universes[ev.u]
CaseOK(ev) ==
  LET r == Exec(Mono(Supers[ev.e], Universe(ev)), ev.doc, ev.vars)
  IN <<VEq(ev.data, r.data), ev.err = r.err>>
ExchangeOK(ev) ==
  LET M == SubAt(Subs[ev.e][ev.sg], Universe(ev), ev.seq0)    \* seq0: the world's counter when the request arrived
      r == Exec(M, ev.doc, ev.vars)
  IN <<RequestOK(M, ev.doc, ev.vars), VEq(ev.data, r.data), ev.err = r.err>>

Verdict(ev) == IF ev.k = "c" THEN CaseOK(ev) ELSE ExchangeOK(ev)
\* not demanded by the property, reported as a metric: an entity fetch none of whose fields survives @skip/@include
\* for the representation's type ("idle" fetch) should not have been sent at all
Idle(ev) ==
  /\ ev.k = "x"
  /\ LET M == SubAt(Subs[ev.e][ev.sg], Universe(ev), ev.seq0)
         C == [M |-> M, frags |-> ev.doc.frags, vars |-> WithDefaults(ev.doc.vars, ev.vars), ctr |-> 0]
     IN \E i \in DOMAIN ev.doc.sel :
           /\ ev.doc.sel[i].k = "f" /\ ev.doc.sel[i].name = "_entities"
           /\ LET reps == ArgVal(C, ev.doc.sel[i].args, "representations")
              IN reps.t = "l" /\ \E j \in DOMAIN reps.v :
                    LET tnv == RepGet(reps.v[j], "__typename")
                    IN tnv.t = "s" /\ \A f \in Range(Collect(C, tnv.v, ev.doc.sel[i].sel)) : f.name = "__typename"

TraceInit == ln = 1 /\ TLCSet(1, 0) /\ TLCSet(2, 0)
TraceNext ==
  /\ ln <= Len(TraceLog)
  /\ LET v == Verdict(Ev)
     IN IF \A i \in DOMAIN v : v[i] THEN TRUE
        ELSE PrintT(<<"C01_BAD", ln, Ev.id, v>>) /\ TLCSet(2, TLCGet(2) + 1)
  /\ IF Idle(Ev) THEN PrintT(<<"C01_IDLE", ln, Ev.id>>) ELSE TRUE
  /\ ln' = ln + 1
TraceSpec == TraceInit /\ [][TraceNext]_ln

HighWater == TLCSet(1, IF ln > TLCGet(1) THEN ln ELSE TLCGet(1))
TraceAccepted ==
  /\ IF TLCGet(1) = Len(TraceLog) + 1 THEN TRUE ELSE PrintT(<<"TRACE_STUCK_AT_LINE", TLCGet(1)>>) /\ FALSE
  /\ IF TLCGet(2) = 0 THEN TRUE ELSE PrintT(<<"C01_BAD_COUNT", TLCGet(2)>>) /\ FALSE
=============================================================================
