----------------------------- MODULE Gen_Catalog -----------------------------
(* Prints the catalog (layouts, derived supergraph, derived subgraph schemas, *)
(* universes) as JSON: the Go harness builds SDLs, planner metadata and the   *)
(* simulators' data from THIS output, so the TLA+ catalog is the only source. *)
EXTENDS FedCatalog, Json
VARIABLE x
EntryJson(i) ==
  [name |-> Catalog[i].name,
   sgs |-> [j \in DOMAIN Catalog[i].sgs |->
              [name |-> Catalog[i].sgs[j].name, types |-> Catalog[i].sgs[j].types, sub |-> Subs[i][j]]],
   super |-> Supers[i],
   universes |-> Catalog[i].universes]
\* the pinned operations of every entry (also model-checked in FedNondet) as cases with their expected outcome
PinnedJson(i, k) ==
  [entry |-> Catalog[i].name, doc |-> Catalog[i].ops[k].doc, vars |-> Catalog[i].ops[k].vars,
   exp |-> [u \in DOMAIN Catalog[i].universes |-> Exec(Mono(Supers[i], Catalog[i].universes[u]), Catalog[i].ops[k].doc, Catalog[i].ops[k].vars)]]
Init == /\ x = 0
        /\ \A i \in DOMAIN Catalog : PrintT(ToJson(EntryJson(i)))
        /\ \A i \in DOMAIN Catalog : \A k \in DOMAIN Catalog[i].ops : PrintT(ToJson(PinnedJson(i, k)))
Next == UNCHANGED x
\* the sanity conditions every catalog entry must satisfy (checked in the same run)
CatalogSane == (\A i \in DOMAIN Catalog : EntryOK(i)) /\ NegativesRejected
=============================================================================
