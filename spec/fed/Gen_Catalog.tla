----------------------------- MODULE Gen_Catalog -----------------------------
(* Prints the catalog (layouts, derived supergraph, derived subgraph schemas, *)
(* universes) as JSON: the Go harness builds SDLs, planner metadata and the   *)
(* simulators' data from THIS output, so the TLA+ catalog is the only source. *)
EXTENDS FedCatalog, Json
VARIABLE x
EntryJson(i) ==
  [name |-> Catalog[i].name,
   sgs |-> [j \in DOMAIN Catalog[i].sgs |->
              [name |-> Catalog[i].sgs[j].name, types |-> Catalog[i].sgs[j].types, sub |-> Subs[i][j]]],
   super |-> Supers[i],
   universes |-> Catalog[i].universes]
Init == x = 0 /\ \A i \in DOMAIN Catalog : PrintT(ToJson(EntryJson(i)))
Next == UNCHANGED x
\* the sanity conditions every catalog entry must satisfy (checked in the same run)
CatalogSane == CatalogOK
=============================================================================
