------------------------------ MODULE FedCatalog ------------------------------
(* The catalog of hand-written federated supergraphs for C01: each entry is a *)
(* layout (sequence of subgraphs with @key/@external/@requires/@provides), a  *)
(* family of consistent data universes, and menus for argument values and     *)
(* variables used by the operation generator.                                 *)
EXTENDS FedExec

TID == Ty("ID")
TStr == Ty("String")
TInt == Ty("Int")
TBool == Ty("Boolean")
Entry(name, sgs, us, argmenu, varmenu, ops) ==
  [name |-> name, sgs |-> sgs, universes |-> us, argmenu |-> argmenu, varmenu |-> varmenu, ops |-> ops, broken |-> us[1], broken2 |-> us[1]]
\* pinned operation for the model check of FedNondet
Op(doc, vars) == [doc |-> doc, vars |-> vars, nomodel |-> FALSE]
OpX(doc, vars) == [doc |-> doc, vars |-> vars, nomodel |-> TRUE]     \* pinned for the replay, not for FedNondet
Fl(n) == Field(n, "", <<>>, <<>>, <<>>)                     \* leaf field
Fo(n, sel) == Field(n, "", <<>>, <<>>, sel)                 \* object field
Bind(n, v) == [name |-> n, val |-> v]
Menu(coord, choices) == [name |-> coord, choices |-> choices]     \* coord = "Type.field"
VarM(name, type, vals) == [name |-> name, type |-> type, vals |-> vals]

\* ============================================================================ E1 "basic"
\* two subgraphs, single key; value type Review owned by one subgraph; entity reachable from both
E1_accounts == SG("accounts", <<
  Obj("Query", <<>>, <<>>, << F("me", Ty("User")),
                              FA("user", Ty("User"), "id", NN(TID)),
                              F("users", NN(Li(NN(Ty("User"))))) >>),
  Obj("User", <<Key(<<FS("id")>>)>>, <<>>, << F("id", NN(TID)), F("name", NN(TStr)), F("nick", TStr),
                                             FA("greeting", TStr, "lang", TStr) >>) >>)      \* optional argument on an entity field
E1_reviews == SG("reviews", <<
  Obj("Query", <<>>, <<>>, << F("topReviews", Li(Ty("Review"))) >>),
  Obj("User", <<Key(<<FS("id")>>)>>, <<>>, << F("id", NN(TID)), F("reviews", Li(NN(Ty("Review")))) >>),
  Obj("Review", <<>>, <<>>, << F("body", NN(TStr)), F("stars", TInt), F("author", Ty("User")) >>) >>)

E1_userFn == Fn("id", <<Case(Str("1"), Ref("u1")), Case(Str("2"), Ref("u2"))>>, Null)
E1_greet(n) == Fn("lang", <<Case(Str("en"), Str("hi " \o n)), Case(Str("de"), Str("hallo " \o n))>>, Str("hey " \o n))
E1_U1 == Uv("all-present", <<
  O("Q", "Query", [me |-> Ref("u1"), user |-> E1_userFn, users |-> Lst(<<Ref("u1"), Ref("u2")>>),
                   topReviews |-> Lst(<<Ref("r1"), Ref("r2"), Ref("r1")>>)]),
  O("u1", "User", [id |-> Str("1"), greeting |-> E1_greet("Ann"), name |-> Str("Ann"), nick |-> Str("an"), reviews |-> Lst(<<Ref("r1"), Ref("r2")>>)]),
  O("u2", "User", [id |-> Str("2"), greeting |-> E1_greet("Bob"), name |-> Str("Bob"), nick |-> Str("bo"), reviews |-> Lst(<<Ref("r2")>>)]),
  O("r1", "Review", [body |-> Str("good"), stars |-> Num(5), author |-> Ref("u1")]),
  O("r2", "Review", [body |-> Str("bad"), stars |-> Num(1), author |-> Ref("u2")]) >>)
E1_U2 == Uv("nullable-nulls", <<
  O("Q", "Query", [me |-> Null, user |-> E1_userFn, users |-> Lst(<<Ref("u1"), Ref("u2")>>),
                   topReviews |-> Lst(<<Ref("r1"), Null, Ref("r2")>>)]),
  O("u1", "User", [id |-> Str("1"), greeting |-> E1_greet("Ann"), name |-> Str("Ann"), nick |-> Null, reviews |-> Null]),
  O("u2", "User", [id |-> Str("2"), greeting |-> E1_greet("Bob"), name |-> Str("Bob"), nick |-> Str("bo"), reviews |-> Lst(<<Ref("r1")>>)]),
  O("r1", "Review", [body |-> Str("good"), stars |-> Null, author |-> Null]),
  O("r2", "Review", [body |-> Str("bad"), stars |-> Num(1), author |-> Ref("u1")]) >>)
E1_U3 == Uv("null-in-nonnull", <<
  O("Q", "Query", [me |-> Ref("u1"), user |-> E1_userFn, users |-> Lst(<<Ref("u1"), Ref("u2")>>),
                   topReviews |-> Lst(<<Ref("r1"), Ref("r2")>>)]),
  O("u1", "User", [id |-> Str("1"), greeting |-> E1_greet("Ann"), name |-> Str("Ann"), nick |-> Str("an"), reviews |-> Lst(<<Ref("r1"), Ref("r2")>>)]),
  O("u2", "User", [id |-> Str("2"), greeting |-> E1_greet("Bob"), name |-> Null, nick |-> Str("bo"), reviews |-> Lst(<<Ref("r1")>>)]),
  O("r1", "Review", [body |-> Str("good"), stars |-> Num(5), author |-> Ref("u2")]),
  O("r2", "Review", [body |-> Null, stars |-> Num(1), author |-> Ref("u1")]) >>)
E1_U4 == Uv("empty-lists", <<
  O("Q", "Query", [me |-> Ref("u1"), user |-> E1_userFn, users |-> Lst(<<>>), topReviews |-> Lst(<<>>)]),
  O("u1", "User", [id |-> Str("1"), greeting |-> E1_greet("Ann"), name |-> Str("Ann"), nick |-> Str("an"), reviews |-> Lst(<<>>)]),
  O("u2", "User", [id |-> Str("2"), greeting |-> E1_greet("Bob"), name |-> Str("Bob"), nick |-> Null, reviews |-> Lst(<<>>)]) >>)

E1 == Entry("basic", <<E1_accounts, E1_reviews>>, <<E1_U1, E1_U2, E1_U3, E1_U4>>,
  << Menu("Query.user", << <<Arg("id", Str("1"))>>, <<Arg("id", Str("2"))>>, <<Arg("id", Str("9"))>>, <<Arg("id", Var("id"))>> >>),
     Menu("User.greeting", << <<>>, <<Arg("lang", Str("de"))>>, <<Arg("lang", Var("lang"))>> >>) >>,
  << VarM("id", NN(TID), <<Str("1"), Str("2")>>), VarM("lang", TStr, <<Str("en"), Str("xx")>>) >>,
  << Op(Doc(<< Fo("me", <<Fl("id"), Fl("name"), Fo("reviews", <<Fl("body"), Fo("author", <<Fl("name"), Fl("nick")>>)>>)>>) >>, <<>>, <<>>), <<>>),
     Op(Doc(<< Fo("topReviews", <<Fl("stars"), Fo("author", <<Fl("name"), Fo("reviews", <<Fl("body")>>)>>)>>),
               Fo("users", <<Fl("nick"), Fl("__typename"), Fo("reviews", <<Fl("body")>>)>>) >>, <<>>, <<>>), <<>>),
     Op(Doc(<< Fo("topReviews", <<Fo("author", <<Field("greeting", "", <<Arg("lang", Str("de"))>>, <<>>, <<>>), Field("greeting", "g", <<>>, <<>>, <<>>)>>)>>) >>, <<>>, <<>>), <<>>),
     Op(Doc(<< Field("user", "", <<Arg("id", Var("id"))>>, <<>>, <<Fl("name"), Fo("reviews", <<Fl("stars")>>)>>),
               Field("user", "x", <<Arg("id", Str("9"))>>, <<Dir("skip", Var("s"))>>, <<Fl("name")>>) >>, <<>>,
            <<VarDef("id", NN(TID), Absent), VarDef("s", NN(TBool), Absent)>>), <<Bind("id", Str("2")), Bind("s", Bool(FALSE))>>) >>)
\* negative control for FedNondet: keys are not unique (u2 has the id of u1)
E1_broken == Uv("duplicate-key", <<
  O("Q", "Query", [me |-> Ref("u2"), users |-> Lst(<<Ref("u1"), Ref("u2")>>), topReviews |-> Lst(<<Ref("r1")>>)]),
  O("u1", "User", [id |-> Str("1"), greeting |-> E1_greet("Ann"), name |-> Str("Ann"), nick |-> Str("an"), reviews |-> Lst(<<Ref("r1")>>)]),
  O("u2", "User", [id |-> Str("1"), greeting |-> E1_greet("Bob"), name |-> Str("Bob"), nick |-> Str("bo"), reviews |-> Lst(<<>>)]),
  O("r1", "Review", [body |-> Str("good"), stars |-> Num(5), author |-> Ref("u2")]) >>)

\* ============================================================================ E2 "keys"
\* compound key, nested key, two alternative keys (reaching `stock` from `ratings` needs a hop through
\* `catalog`: id -> sku pkg), @key(resolvable: false) stubs -- one of which (catalog.Org) also owns a shared
\* field, so that entering it through its unresolvable key would be wrong
E2_catalog == SG("catalog", <<
  Obj("Query", <<>>, <<>>, << F("products", NN(Li(NN(Ty("Product"))))), FA("product", Ty("Product"), "id", NN(TID)) >>),
  Obj("Product", <<Key(<<FS("id")>>), Key(<<FS("sku"), FS("pkg")>>)>>, <<>>,
      << F("id", NN(TID)), F("sku", NN(TStr)), F("pkg", NN(TStr)), F("name", TStr), F("maker", Ty("Org")) >>),
  Obj("Org", <<KeyNR(<<FS("id")>>)>>, <<>>, << F("id", NN(TID)), F("title", NN(TStr)) >>) >>)   \* stub that can also answer title
E2_stock == SG("stock", <<
  Obj("Product", <<Key(<<FS("sku"), FS("pkg")>>)>>, <<>>, << F("sku", NN(TStr)), F("pkg", NN(TStr)), F("stock", TInt) >>) >>)
E2_orgs == SG("orgs", <<
  Obj("Query", <<>>, <<>>, << F("sites", Li(Ty("Site"))) >>),
  Obj("Org", <<Key(<<FS("id")>>)>>, <<>>, << F("id", NN(TID)), F("title", NN(TStr)), F("hq", Ty("Site")) >>),
  Obj("Site", <<Key(<<FSN("org", <<FS("id")>>), FS("code")>>)>>, <<>>, << F("org", NN(Ty("Org"))), F("code", NN(TStr)), F("addr", TStr) >>) >>)
E2_geo == SG("geo", <<
  Obj("Query", <<>>, <<>>, << F("nearest", Ty("Site")) >>),
  Obj("Site", <<Key(<<FSN("org", <<FS("id")>>), FS("code")>>)>>, <<>>, << F("org", NN(Ty("Org"))), F("code", NN(TStr)), F("lat", TInt) >>),
  Obj("Org", <<KeyNR(<<FS("id")>>)>>, <<>>, << F("id", NN(TID)) >>) >>)
E2_ratings == SG("ratings", <<
  Obj("Query", <<>>, <<>>, << F("top", Li(Ty("Product"))) >>),
  Obj("Product", <<Key(<<FS("id")>>)>>, <<>>, << F("id", NN(TID)), F("rating", TInt) >>) >>)

E2_productFn == Fn("id", <<Case(Str("p1"), Ref("p1")), Case(Str("p2"), Ref("p2"))>>, Null)
E2_U1 == Uv("all-present", <<
  O("Q", "Query", [products |-> Lst(<<Ref("p1"), Ref("p2")>>), product |-> E2_productFn,
                   sites |-> Lst(<<Ref("s1"), Ref("s2")>>), top |-> Lst(<<Ref("p2"), Ref("p1"), Ref("p2")>>), nearest |-> Ref("s2")]),
  O("p1", "Product", [id |-> Str("p1"), sku |-> Str("s1"), pkg |-> Str("k1"), name |-> Str("Pen"), maker |-> Ref("o1"), stock |-> Num(3), rating |-> Num(4)]),
  O("p2", "Product", [id |-> Str("p2"), sku |-> Str("s1"), pkg |-> Str("k2"), name |-> Str("Ink"), maker |-> Ref("o2"), stock |-> Num(0), rating |-> Num(2)]),
  O("o1", "Org", [id |-> Str("o1"), title |-> Str("Acme"), hq |-> Ref("s1")]),
  O("o2", "Org", [id |-> Str("o2"), title |-> Str("Bolt"), hq |-> Ref("s2")]),
  O("s1", "Site", [org |-> Ref("o1"), code |-> Str("c1"), addr |-> Str("Main"), lat |-> Num(10)]),
  O("s2", "Site", [org |-> Ref("o2"), code |-> Str("c1"), addr |-> Str("Side"), lat |-> Num(20)]) >>)
E2_U2 == Uv("nullable-nulls", <<
  O("Q", "Query", [products |-> Lst(<<Ref("p1"), Ref("p2")>>), product |-> E2_productFn,
                   sites |-> Lst(<<Ref("s1"), Null, Ref("s2")>>), top |-> Lst(<<Null, Ref("p1")>>), nearest |-> Null]),
  O("p1", "Product", [id |-> Str("p1"), sku |-> Str("s1"), pkg |-> Str("k1"), name |-> Null, maker |-> Null, stock |-> Null, rating |-> Num(4)]),
  O("p2", "Product", [id |-> Str("p2"), sku |-> Str("s1"), pkg |-> Str("k2"), name |-> Str("Ink"), maker |-> Ref("o2"), stock |-> Num(7), rating |-> Null]),
  O("o1", "Org", [id |-> Str("o1"), title |-> Str("Acme"), hq |-> Ref("s1")]),
  O("o2", "Org", [id |-> Str("o2"), title |-> Str("Bolt"), hq |-> Null]),
  O("s1", "Site", [org |-> Ref("o1"), code |-> Str("c1"), addr |-> Null, lat |-> Num(10)]),
  O("s2", "Site", [org |-> Ref("o2"), code |-> Str("c1"), addr |-> Str("Side"), lat |-> Null]) >>)
E2_U3 == Uv("null-in-nonnull", <<
  O("Q", "Query", [products |-> Lst(<<Ref("p1"), Ref("p2")>>), product |-> E2_productFn,
                   sites |-> Lst(<<Ref("s1"), Ref("s2")>>), top |-> Lst(<<Ref("p2"), Ref("p1")>>), nearest |-> Ref("s1")]),
  O("p1", "Product", [id |-> Str("p1"), sku |-> Str("s1"), pkg |-> Str("k1"), name |-> Str("Pen"), maker |-> Ref("o1"), stock |-> Num(3), rating |-> Num(4)]),
  O("p2", "Product", [id |-> Str("p2"), sku |-> Str("s1"), pkg |-> Str("k2"), name |-> Str("Ink"), maker |-> Ref("o2"), stock |-> Num(0), rating |-> Num(2)]),
  O("o1", "Org", [id |-> Str("o1"), title |-> Str("Acme"), hq |-> Ref("s1")]),
  O("o2", "Org", [id |-> Str("o2"), title |-> Null, hq |-> Ref("s2")]),
  O("s1", "Site", [org |-> Ref("o1"), code |-> Str("c1"), addr |-> Str("Main"), lat |-> Num(10)]),
  O("s2", "Site", [org |-> Ref("o2"), code |-> Str("c1"), addr |-> Str("Side"), lat |-> Num(20)]) >>)
E2_U4 == Uv("empty-lists", <<
  O("Q", "Query", [products |-> Lst(<<>>), product |-> E2_productFn, sites |-> Lst(<<>>), top |-> Lst(<<>>), nearest |-> Null]),
  O("p1", "Product", [id |-> Str("p1"), sku |-> Str("s1"), pkg |-> Str("k1"), name |-> Str("Pen"), maker |-> Ref("o1"), stock |-> Num(3), rating |-> Num(4)]),
  O("p2", "Product", [id |-> Str("p2"), sku |-> Str("s1"), pkg |-> Str("k2"), name |-> Str("Ink"), maker |-> Null, stock |-> Num(0), rating |-> Num(2)]),
  O("o1", "Org", [id |-> Str("o1"), title |-> Str("Acme"), hq |-> Null]) >>)

E2 == Entry("keys", <<E2_catalog, E2_stock, E2_orgs, E2_geo, E2_ratings>>, <<E2_U1, E2_U2, E2_U3, E2_U4>>,
  << Menu("Query.product", << <<Arg("id", Str("p1"))>>, <<Arg("id", Str("p2"))>>, <<Arg("id", Str("zz"))>>, <<Arg("id", Var("pid"))>> >>) >>,
  << VarM("pid", NN(TID), <<Str("p1"), Str("p2")>>) >>,
  << Op(Doc(<< Fo("top", <<Fl("rating"), Fl("stock"), Fl("name")>>) >>, <<>>, <<>>), <<>>),
     Op(Doc(<< Fo("products", <<Fl("stock"), Fo("maker", <<Fl("title"), Fo("hq", <<Fl("addr"), Fl("lat")>>)>>)>>) >>, <<>>, <<>>), <<>>),
     Op(Doc(<< Fo("sites", <<Fl("lat"), Fl("addr"), Fo("org", <<Fl("title")>>)>>),
               Field("product", "", <<Arg("id", Str("p2"))>>, <<>>, <<Fl("rating"), Fl("pkg")>>) >>, <<>>, <<>>), <<>>),
     Op(Doc(<< Fo("top", <<Fl("sku"), Fl("stock")>>) >>, <<>>, <<>>), <<>>),
     Op(Doc(<< Fo("nearest", <<Fl("addr"), Fo("org", <<Fl("title")>>)>>) >>, <<>>, <<>>), <<>>) >>)

\* ============================================================================ E3 "requires"
\* @requires on scalars of the same entity, through an owned entity reference into an @external field
\* (the cosmo demo pattern `lead { isAvailable }`), and into an @external value type
E3_products == SG("products", <<
  Obj("Query", <<>>, <<>>, << F("items", NN(Li(NN(Ty("Item"))))), FA("item", Ty("Item"), "id", NN(TID)) >>),
  Obj("Item", <<Key(<<FS("id")>>)>>, <<>>, << F("id", NN(TID)), F("price", TInt), F("weight", TInt), F("dims", Ty("Dims")) >>),
  Obj("Dims", <<>>, <<>>, << F("w", TInt), F("h", TInt) >>) >>)
E3_shipping == SG("shipping", <<
  Obj("Item", <<Key(<<FS("id")>>)>>, <<>>,
      << F("id", NN(TID)), Ext(F("price", TInt)), Ext(F("weight", TInt)), Ext(F("dims", Ty("Dims"))),
         Req(F("cost", TStr), <<FS("price"), FS("weight")>>),
         Req(F("box", TStr), <<FSN("dims", <<FS("w"), FS("h")>>)>>),
         F("vendor", Ty("Vendor")),
         Req(F("duty", TStr), <<FSN("vendor", <<FS("country")>>)>>) >>),
  Obj("Dims", <<>>, <<>>, << Ext(F("w", TInt)), Ext(F("h", TInt)) >>),
  Obj("Vendor", <<Key(<<FS("id")>>)>>, <<>>, << F("id", NN(TID)), Ext(F("country", TStr)) >>) >>)
E3_vendors == SG("vendors", <<
  Obj("Query", <<>>, <<>>, << F("vendors", Li(Ty("Vendor"))) >>),
  Obj("Vendor", <<Key(<<FS("id")>>)>>, <<>>, << F("id", NN(TID)), F("country", TStr), F("label", NN(TStr)) >>) >>)

E3_itemFn == Fn("id", <<Case(Str("i1"), Ref("i1")), Case(Str("i2"), Ref("i2"))>>, Null)
E3_U1 == Uv("all-present", <<
  O("Q", "Query", [items |-> Lst(<<Ref("i1"), Ref("i2")>>), item |-> E3_itemFn, vendors |-> Lst(<<Ref("v1"), Ref("v2")>>)]),
  O("i1", "Item", [id |-> Str("i1"), price |-> Num(10), weight |-> Num(2), dims |-> Ref("d1"), vendor |-> Ref("v1")]),
  O("i2", "Item", [id |-> Str("i2"), price |-> Num(25), weight |-> Num(7), dims |-> Ref("d2"), vendor |-> Ref("v2")]),
  O("d1", "Dims", [w |-> Num(1), h |-> Num(2)]),
  O("d2", "Dims", [w |-> Num(3), h |-> Num(4)]),
  O("v1", "Vendor", [id |-> Str("v1"), country |-> Str("DE"), label |-> Str("Vau")]),
  O("v2", "Vendor", [id |-> Str("v2"), country |-> Str("FR"), label |-> Str("Wye")]) >>)
E3_U2 == Uv("nullable-nulls", <<
  O("Q", "Query", [items |-> Lst(<<Ref("i1"), Ref("i2")>>), item |-> E3_itemFn, vendors |-> Lst(<<Ref("v1"), Null>>)]),
  O("i1", "Item", [id |-> Str("i1"), price |-> Null, weight |-> Num(2), dims |-> Null, vendor |-> Null]),
  O("i2", "Item", [id |-> Str("i2"), price |-> Num(25), weight |-> Null, dims |-> Ref("d2"), vendor |-> Ref("v2")]),
  O("d2", "Dims", [w |-> Null, h |-> Num(4)]),
  O("v1", "Vendor", [id |-> Str("v1"), country |-> Str("DE"), label |-> Str("Vau")]),
  O("v2", "Vendor", [id |-> Str("v2"), country |-> Null, label |-> Str("Wye")]) >>)
\* (the object with the null in a non-null position, v3, feeds no @requires input: a subgraph's own null
\* propagation would wipe the sibling input `country` of the same entity fetch -- no batching gateway can
\* then answer like the monolith, so such universes are outside "consistent")
E3_U3 == Uv("null-in-nonnull", <<
  O("Q", "Query", [items |-> Lst(<<Ref("i1"), Ref("i2")>>), item |-> E3_itemFn, vendors |-> Lst(<<Ref("v1"), Ref("v3"), Ref("v2")>>)]),
  O("i1", "Item", [id |-> Str("i1"), price |-> Num(10), weight |-> Num(2), dims |-> Ref("d1"), vendor |-> Ref("v1")]),
  O("i2", "Item", [id |-> Str("i2"), price |-> Num(25), weight |-> Num(7), dims |-> Ref("d1"), vendor |-> Ref("v2")]),
  O("d1", "Dims", [w |-> Num(1), h |-> Num(2)]),
  O("v1", "Vendor", [id |-> Str("v1"), country |-> Str("DE"), label |-> Str("Vau")]),
  O("v2", "Vendor", [id |-> Str("v2"), country |-> Str("FR"), label |-> Str("Wye")]),
  O("v3", "Vendor", [id |-> Str("v3"), country |-> Str("IT"), label |-> Null]) >>)
E3_U4 == Uv("empty-lists", <<
  O("Q", "Query", [items |-> Lst(<<>>), item |-> E3_itemFn, vendors |-> Lst(<<>>)]),
  O("i1", "Item", [id |-> Str("i1"), price |-> Num(10), weight |-> Num(2), dims |-> Ref("d1"), vendor |-> Ref("v1")]),
  O("d1", "Dims", [w |-> Num(1), h |-> Num(2)]),
  O("v1", "Vendor", [id |-> Str("v1"), country |-> Str("DE"), label |-> Str("Vau")]) >>)

E3 == Entry("requires", <<E3_products, E3_shipping, E3_vendors>>, <<E3_U1, E3_U2, E3_U3, E3_U4>>,
  << Menu("Query.item", << <<Arg("id", Str("i1"))>>, <<Arg("id", Str("i2"))>>, <<Arg("id", Var("iid"))>> >>) >>,
  << VarM("iid", NN(TID), <<Str("i1"), Str("i2")>>) >>,
  << Op(Doc(<< Fo("items", <<Fl("cost"), Fl("box"), Fl("duty")>>) >>, <<>>, <<>>), <<>>),
     Op(Doc(<< Field("item", "", <<Arg("id", Str("i2"))>>, <<>>, <<Fl("price"), Fl("cost"), Fo("vendor", <<Fl("label"), Fl("country")>>)>>) >>, <<>>, <<>>), <<>>) >>)

\* ============================================================================ E4 "provides"
\* @provides with an @external field, a value type shared by two subgraphs, an entity field shared by two
\* subgraphs (either owner is a legitimate choice)
E4_posts == SG("posts", <<
  Obj("Query", <<>>, <<>>, << F("feed", Li(Ty("Post"))),
                              Prov(F("board", Ty("Board")), <<FSN("lead", <<FS("handle")>>)>>) >>),        \* @provides on a NESTED path
  Obj("Post", <<>>, <<>>, << F("text", NN(TStr)), Prov(F("by", NN(Ty("Author"))), <<FS("handle")>>), F("editor", Ty("Author")),
                             Prov(F("likers", Li(NN(Ty("Author")))), <<FS("handle")>>) >>),               \* @provides on a LIST of entities
  Obj("Board", <<>>, <<>>, << F("name", TStr), F("lead", NN(Ty("Author"))), F("second", Ty("Author")) >>),
  Obj("Author", <<Key(<<FS("id")>>)>>, <<>>, << F("id", NN(TID)), Ext(F("handle", NN(TStr))), F("posts", Li(Ty("Post"))) >>) >>)
E4_users == SG("users", <<
  Obj("Query", <<>>, <<>>, << F("authors", NN(Li(NN(Ty("Author"))))) >>),
  Obj("Author", <<Key(<<FS("id")>>)>>, <<>>, << F("id", NN(TID)), F("handle", NN(TStr)), F("karma", TInt), F("wallet", Ty("Money")) >>),
  Obj("Money", <<>>, <<>>, << F("amount", TInt), F("cur", NN(TStr)) >>) >>)
E4_billing == SG("billing", <<
  Obj("Author", <<Key(<<FS("id")>>)>>, <<>>, << F("id", NN(TID)), F("karma", TInt), F("budget", Ty("Money")) >>),
  Obj("Money", <<>>, <<>>, << F("amount", TInt), F("cur", NN(TStr)) >>) >>)

E4_U1 == Uv("all-present", <<
  O("Q", "Query", [feed |-> Lst(<<Ref("t1"), Ref("t2"), Ref("t3")>>), authors |-> Lst(<<Ref("a1"), Ref("a2")>>), board |-> Ref("bd")]),
  O("bd", "Board", [name |-> Str("main"), lead |-> Ref("a2"), second |-> Ref("a1")]),
  O("t1", "Post", [text |-> Str("hello"), by |-> Ref("a1"), editor |-> Ref("a2"), likers |-> Lst(<<Ref("a2"), Ref("a1"), Ref("a2")>>)]),
  O("t2", "Post", [text |-> Str("world"), by |-> Ref("a2"), editor |-> Ref("a2")]),
  O("t3", "Post", [text |-> Str("again"), by |-> Ref("a1"), editor |-> Ref("a1")]),
  O("a1", "Author", [id |-> Str("a1"), handle |-> Str("@ann"), karma |-> Num(7), posts |-> Lst(<<Ref("t1"), Ref("t3")>>), wallet |-> Ref("m1"), budget |-> Ref("m2")]),
  O("a2", "Author", [id |-> Str("a2"), handle |-> Str("@bob"), karma |-> Num(9), posts |-> Lst(<<Ref("t2")>>), wallet |-> Ref("m2"), budget |-> Ref("m1")]),
  O("m1", "Money", [amount |-> Num(5), cur |-> Str("EUR")]),
  O("m2", "Money", [amount |-> Num(8), cur |-> Str("USD")]) >>)
E4_U2 == Uv("nullable-nulls", <<
  O("Q", "Query", [feed |-> Lst(<<Ref("t1"), Null, Ref("t2")>>), authors |-> Lst(<<Ref("a1"), Ref("a2")>>), board |-> Null]),
  O("t1", "Post", [text |-> Str("hello"), by |-> Ref("a1"), editor |-> Null, likers |-> Lst(<<>>)]),
  O("t2", "Post", [text |-> Str("world"), by |-> Ref("a2"), editor |-> Ref("a1")]),
  O("a1", "Author", [id |-> Str("a1"), handle |-> Str("@ann"), karma |-> Null, posts |-> Null, wallet |-> Null, budget |-> Ref("m2")]),
  O("a2", "Author", [id |-> Str("a2"), handle |-> Str("@bob"), karma |-> Num(9), posts |-> Lst(<<Ref("t2"), Null>>), wallet |-> Ref("m2"), budget |-> Null]),
  O("m2", "Money", [amount |-> Null, cur |-> Str("USD")]) >>)
E4_U3 == Uv("null-in-nonnull", <<
  O("Q", "Query", [feed |-> Lst(<<Ref("t1"), Ref("t2")>>), authors |-> Lst(<<Ref("a1"), Ref("a2")>>), board |-> Ref("bd")]),
  O("bd", "Board", [name |-> Null, lead |-> Ref("a1"), second |-> Null]),
  O("t1", "Post", [text |-> Str("hello"), by |-> Ref("a1"), editor |-> Ref("a2"), likers |-> Lst(<<Ref("a1")>>)]),
  O("t2", "Post", [text |-> Null, by |-> Ref("a2"), editor |-> Ref("a1")]),
  O("a1", "Author", [id |-> Str("a1"), handle |-> Str("@ann"), karma |-> Num(7), posts |-> Lst(<<Ref("t1")>>), wallet |-> Ref("m1"), budget |-> Ref("m1")]),
  O("a2", "Author", [id |-> Str("a2"), handle |-> Str("@bob"), karma |-> Num(9), posts |-> Lst(<<Ref("t2")>>), wallet |-> Ref("m2"), budget |-> Ref("m2")]),
  O("m1", "Money", [amount |-> Num(5), cur |-> Str("EUR")]),
  O("m2", "Money", [amount |-> Num(8), cur |-> Null]) >>)

\* negative control: users and billing both own Author.karma and DISAGREE on a1
E4_inconsistent == UvOver("owners-disagree", <<
  O("Q", "Query", [feed |-> Lst(<<Ref("t1")>>), authors |-> Lst(<<Ref("a1")>>)]),
  O("t1", "Post", [text |-> Str("hello"), by |-> Ref("a1"), editor |-> Ref("a1")]),
  O("a1", "Author", [id |-> Str("a1"), handle |-> Str("@ann"), karma |-> Num(7), posts |-> Lst(<<Ref("t1")>>), wallet |-> Null, budget |-> Null]) >>,
  <<Dev("billing", "a1", "karma", Num(99))>>)
E4 == Entry("provides", <<E4_posts, E4_users, E4_billing>>, <<E4_U1, E4_U2, E4_U3>>, <<>>, <<>>,
  << Op(Doc(<< Fo("feed", <<Fl("text"), Fo("by", <<Fl("handle"), Fl("karma")>>), Fo("editor", <<Fl("handle")>>)>>) >>, <<>>, <<>>), <<>>),
     Op(Doc(<< Fo("authors", <<Fl("karma"), Fo("wallet", <<Fl("amount")>>), Fo("budget", <<Fl("cur")>>), Fo("posts", <<Fo("by", <<Fl("handle")>>)>>)>>) >>, <<>>, <<>>), <<>>),
     Op(Doc(<< Fo("board", <<Fl("name"), Fo("lead", <<Fl("handle"), Fl("karma")>>), Fo("second", <<Fl("handle")>>)>>),
               Fo("feed", <<Fo("likers", <<Fl("handle"), Fl("id")>>)>>) >>, <<>>, <<>>), <<>>) >>)

\* ============================================================================ E5 "abstract"
\* entities behind an interface and in a union (with a non-entity member); fields of the members live in
\* other subgraphs
E5_search == SG("search", <<
  Obj("Query", <<>>, <<>>, << F("search", NN(Li(NN(Ty("Result"))))), F("nodes", Li(Ty("Node"))), F("feat", Ty("Result")) >>),
  Uni("Result", <<"Book", "Movie", "Ad">>),
  Iface("Node", << F("id", NN(TID)) >>),
  Obj("Book", <<Key(<<FS("id")>>)>>, <<"Node">>, << F("id", NN(TID)), F("title", TStr) >>),
  Obj("Movie", <<Key(<<FS("id")>>)>>, <<"Node">>, << F("id", NN(TID)), F("title", TStr) >>),
  Obj("Ad", <<>>, <<>>, << F("text", NN(TStr)) >>) >>)
E5_books == SG("books", <<
  Obj("Book", <<Key(<<FS("id")>>)>>, <<>>, << F("id", NN(TID)), F("pages", TInt), F("writer", Ty("Person")) >>),
  Obj("Person", <<>>, <<>>, << F("name", NN(TStr)) >>) >>)
E5_movies == SG("movies", <<
  Obj("Movie", <<Key(<<FS("id")>>)>>, <<>>, << F("id", NN(TID)), F("mins", NN(TInt)), F("sequel", Ty("Movie")) >>) >>)

E5_U1 == Uv("all-present", <<
  O("Q", "Query", [search |-> Lst(<<Ref("b1"), Ref("m1"), Ref("ad"), Ref("b2")>>), nodes |-> Lst(<<Ref("m2"), Ref("b1"), Ref("m1")>>), feat |-> Ref("m1")]),
  O("b1", "Book", [id |-> Str("b1"), title |-> Str("Dune"), pages |-> Num(600), writer |-> Ref("w1")]),
  O("b2", "Book", [id |-> Str("b2"), title |-> Str("Emma"), pages |-> Num(300), writer |-> Ref("w2")]),
  O("m1", "Movie", [id |-> Str("m1"), title |-> Str("Alien"), mins |-> Num(117), sequel |-> Ref("m2")]),
  O("m2", "Movie", [id |-> Str("m2"), title |-> Str("Aliens"), mins |-> Num(137), sequel |-> Null]),
  O("ad", "Ad", [text |-> Str("buy")]),
  O("w1", "Person", [name |-> Str("Frank")]),
  O("w2", "Person", [name |-> Str("Jane")]) >>)
E5_U2 == Uv("nullable-nulls", <<
  O("Q", "Query", [search |-> Lst(<<Ref("m1"), Ref("b1")>>), nodes |-> Lst(<<Null, Ref("b1"), Ref("m2")>>), feat |-> Null]),
  O("b1", "Book", [id |-> Str("b1"), title |-> Null, pages |-> Null, writer |-> Null]),
  O("m1", "Movie", [id |-> Str("m1"), title |-> Str("Alien"), mins |-> Num(117), sequel |-> Null]),
  O("m2", "Movie", [id |-> Str("m2"), title |-> Null, mins |-> Num(137), sequel |-> Ref("m1")]) >>)
E5_U3 == Uv("null-in-nonnull", <<
  O("Q", "Query", [search |-> Lst(<<Ref("b1"), Ref("m1"), Ref("ad")>>), nodes |-> Lst(<<Ref("m2"), Ref("b1")>>), feat |-> Ref("b1")]),
  O("b1", "Book", [id |-> Str("b1"), title |-> Str("Dune"), pages |-> Num(600), writer |-> Ref("w1")]),
  O("m1", "Movie", [id |-> Str("m1"), title |-> Str("Alien"), mins |-> Null, sequel |-> Ref("m2")]),
  O("m2", "Movie", [id |-> Str("m2"), title |-> Str("Aliens"), mins |-> Num(137), sequel |-> Ref("m1")]),
  O("ad", "Ad", [text |-> Null]),
  O("w1", "Person", [name |-> Null]) >>)
E5_U4 == Uv("empty-lists", <<
  O("Q", "Query", [search |-> Lst(<<>>), nodes |-> Lst(<<>>), feat |-> Ref("ad")]),
  O("ad", "Ad", [text |-> Str("buy")]) >>)

E5 == Entry("abstract", <<E5_search, E5_books, E5_movies>>, <<E5_U1, E5_U2, E5_U3, E5_U4>>, <<>>, <<>>,
  << Op(Doc(<< Fo("search", <<Fl("__typename"), Inline("Book", <<>>, <<Fl("title"), Fl("pages")>>), Inline("Movie", <<>>, <<Fl("mins")>>), Inline("Ad", <<>>, <<Fl("text")>>)>>) >>, <<>>, <<>>), <<>>),
     Op(Doc(<< Fo("nodes", <<Fl("id"), Inline("Movie", <<>>, <<Fo("sequel", <<Fl("title"), Fl("mins")>>)>>), Inline("Book", <<>>, <<Fo("writer", <<Fl("name")>>)>>)>>) >>, <<>>, <<>>), <<>>),
     \* two __typename selections next to a fragment that the rewriter expands (finding C01-3)
     Op(Doc(<< Fo("feat", <<Inline("Node", <<>>, <<Fl("id")>>), Field("__typename", "a1", <<>>, <<>>, <<>>), Field("__typename", "a2", <<>>, <<>>, <<>>)>>) >>, <<>>, <<>>), <<>>) >>)

\* ============================================================================ E6 "deep"
\* a list of entities three hops deep (catalog -> library -> people -> library), lists of lists, the same
\* entity at several positions of one batch
E6_catalog == SG("catalog", <<
  Obj("Query", <<>>, <<>>, << F("shelves", Li(NN(Ty("Shelf")))), F("grid", Li(Li(Ty("Book")))),
                              \* null bubbling inside a list of lists: [[Book!]] (the inner list absorbs), [[Book!]!] (the whole field
                              \* absorbs), [[Book]!] (the item absorbs); Book.title: String! is owned by `library`
                              F("gridA", Li(Li(NN(Ty("Book"))))), F("gridB", Li(NN(Li(NN(Ty("Book")))))), F("gridC", Li(NN(Li(Ty("Book"))))) >>),
  Obj("Shelf", <<>>, <<>>, << F("label", NN(TStr)), F("books", NN(Li(NN(Ty("Book"))))) >>),
  Obj("Book", <<Key(<<FS("isbn")>>)>>, <<>>, << F("isbn", NN(TID)) >>) >>)
E6_library == SG("library", <<
  Obj("Book", <<Key(<<FS("isbn")>>)>>, <<>>, << F("isbn", NN(TID)), F("title", NN(TStr)), F("authors", NN(Li(NN(Ty("Writer"))))) >>),
  Obj("Writer", <<Key(<<FS("wid")>>)>>, <<>>, << F("wid", NN(TID)) >>) >>)
E6_people == SG("people", <<
  Obj("Writer", <<Key(<<FS("wid")>>)>>, <<>>, << F("wid", NN(TID)), F("name", TStr), F("books", Li(NN(Ty("Book")))) >>),
  Obj("Book", <<Key(<<FS("isbn")>>)>>, <<>>, << F("isbn", NN(TID)) >>) >>)

E6_U1 == Uv("all-present", <<
  O("Q", "Query", [shelves |-> Lst(<<Ref("h1"), Ref("h2")>>), grid |-> Lst(<<Lst(<<Ref("k1"), Ref("k2")>>), Lst(<<Ref("k2")>>)>>),
                   gridA |-> Lst(<<Lst(<<Ref("k3")>>), Lst(<<>>), Lst(<<Ref("k1"), Ref("k3")>>)>>),
                   gridB |-> Lst(<<Lst(<<Ref("k2"), Ref("k1")>>)>>), gridC |-> Lst(<<Lst(<<Ref("k1"), Null>>), Lst(<<Ref("k2")>>)>>)]),
  O("h1", "Shelf", [label |-> Str("A"), books |-> Lst(<<Ref("k1"), Ref("k2")>>)]),
  O("h2", "Shelf", [label |-> Str("B"), books |-> Lst(<<Ref("k2"), Ref("k3")>>)]),
  O("k1", "Book", [isbn |-> Str("1"), title |-> Str("One"), authors |-> Lst(<<Ref("w1")>>)]),
  O("k2", "Book", [isbn |-> Str("2"), title |-> Str("Two"), authors |-> Lst(<<Ref("w1"), Ref("w2")>>)]),
  O("k3", "Book", [isbn |-> Str("3"), title |-> Str("Three"), authors |-> Lst(<<Ref("w2")>>)]),
  O("w1", "Writer", [wid |-> Str("w1"), name |-> Str("Wil"), books |-> Lst(<<Ref("k1"), Ref("k2")>>)]),
  O("w2", "Writer", [wid |-> Str("w2"), name |-> Str("Xan"), books |-> Lst(<<Ref("k2"), Ref("k3")>>)]) >>)
E6_U2 == Uv("nullable-nulls", <<
  O("Q", "Query", [shelves |-> Lst(<<Ref("h1"), Ref("h2")>>), grid |-> Lst(<<Null, Lst(<<Ref("k1"), Null>>), Lst(<<>>)>>),
                   gridA |-> Lst(<<Null, Lst(<<Ref("k1")>>)>>), gridB |-> Null, gridC |-> Lst(<<Lst(<<Null, Ref("k1")>>)>>)]),
  O("h1", "Shelf", [label |-> Str("A"), books |-> Lst(<<Ref("k1")>>)]),
  O("h2", "Shelf", [label |-> Str("B"), books |-> Lst(<<>>)]),
  O("k1", "Book", [isbn |-> Str("1"), title |-> Str("One"), authors |-> Lst(<<Ref("w1"), Ref("w2")>>)]),
  O("w1", "Writer", [wid |-> Str("w1"), name |-> Null, books |-> Null]),
  O("w2", "Writer", [wid |-> Str("w2"), name |-> Str("Xan"), books |-> Lst(<<Ref("k1")>>)]) >>)
E6_U3 == Uv("null-in-nonnull", <<
  O("Q", "Query", [shelves |-> Lst(<<Ref("h1"), Ref("h2")>>), grid |-> Lst(<<Lst(<<Ref("k1"), Ref("k2")>>)>>),
                   gridA |-> Lst(<<Lst(<<Ref("k1")>>), Lst(<<Ref("k2")>>), Lst(<<Ref("k1"), Ref("k2")>>), Lst(<<Ref("k1")>>)>>),
                   gridB |-> Lst(<<Lst(<<Ref("k1")>>), Lst(<<Ref("k1"), Ref("k2")>>)>>),
                   gridC |-> Lst(<<Lst(<<Ref("k1"), Ref("k2")>>), Lst(<<Ref("k2")>>), Lst(<<>>)>>)]),
  O("h1", "Shelf", [label |-> Str("A"), books |-> Lst(<<Ref("k1")>>)]),
  O("h2", "Shelf", [label |-> Str("B"), books |-> Lst(<<Ref("k2")>>)]),
  O("k1", "Book", [isbn |-> Str("1"), title |-> Str("One"), authors |-> Lst(<<Ref("w1")>>)]),
  O("k2", "Book", [isbn |-> Str("2"), title |-> Null, authors |-> Lst(<<Ref("w1")>>)]),
  O("w1", "Writer", [wid |-> Str("w1"), name |-> Str("Wil"), books |-> Lst(<<Ref("k2"), Ref("k1")>>)]) >>)
E6_U4 == Uv("empty-lists", <<
  O("Q", "Query", [shelves |-> Lst(<<>>), grid |-> Lst(<<Lst(<<>>)>>)]) >>)

E6 == Entry("deep", <<E6_catalog, E6_library, E6_people>>, <<E6_U1, E6_U2, E6_U3, E6_U4>>, <<>>, <<>>,
  << Op(Doc(<< Fo("shelves", <<Fl("label"), Fo("books", <<Fl("title"), Fo("authors", <<Fl("name")>>)>>)>>) >>, <<>>, <<>>), <<>>),
     Op(Doc(<< Fo("grid", <<Fl("isbn"), Fo("authors", <<Fo("books", <<Fl("title")>>)>>)>>) >>, <<>>, <<>>), <<>>),
     Op(Doc(<< Fo("grid", <<Fl("title")>>) >>, <<>>, <<>>), <<>>),
     Op(Doc(<< Fo("gridA", <<Fl("title")>>), Fo("gridB", <<Fl("isbn"), Fl("title")>>), Fo("gridC", <<Fl("title"), Fo("authors", <<Fl("name")>>)>>) >>, <<>>, <<>>), <<>>) >>)

\* ============================================================================ E7 "values"
\* enums (output, argument, inside an input object), input-object and list arguments (literal, variable, variable
\* nested in a literal), custom scalars (a string-valued one and a JSON-valued one), arguments of these kinds on an
\* entity field that lives in another subgraph, an @inaccessible key field
E7_shop == SG("shop", <<
  Obj("Query", <<>>, <<>>, << FA("books", NN(Li(NN(Ty("Book")))), "genre", Ty("Genre")),
                              FA("find", Li(Ty("Book")), "filter", NN(Ty("BookFilter"))),
                              FA("byIds", NN(Li(Ty("Book"))), "ids", NN(Li(NN(TID)))) >>),
  Enum("Genre", <<"SCIFI", "DRAMA">>),
  Input("BookFilter", << F("genre", Ty("Genre")), F("minPages", TInt), F("tags", Li(NN(TStr))) >>),
  Scalar("Meta"),
  Obj("Book", <<Key(<<FS("sn")>>)>>, <<>>, << Inacc(F("sn", NN(TID))), F("title", NN(TStr)), F("genre", NN(Ty("Genre"))), F("meta", Ty("Meta")) >>) >>)
E7_stats == SG("stats", <<
  Enum("Genre", <<"SCIFI", "DRAMA">>),
  Input("Opts", << F("deep", NN(TBool)), F("keys", NN(Li(NN(TStr)))) >>),
  Scalar("Meta"),
  Scalar("Stamp"),
  Obj("Book", <<Key(<<FS("sn")>>)>>, <<>>, << Inacc(F("sn", NN(TID))), F("pages", TInt), FA("mood", TStr, "of", NN(Ty("Genre"))),
                                             F("stamp", Ty("Stamp")), FA("extra", Ty("Meta"), "opts", Ty("Opts")) >>) >>)

E7_optsA == ObjV(<<"deep", "keys">>, <<Bool(TRUE), Lst(<<Str("a")>>)>>)
E7_optsB == ObjV(<<"deep", "keys">>, <<Bool(FALSE), Lst(<<>>)>>)
E7_booksFn(all, sf, dr) == Fn("genre", <<Case(Str("SCIFI"), sf), Case(Str("DRAMA"), dr)>>, all)
E7_findFn(a, b, c) == Fn("filter", << Case(ObjV(<<"genre">>, <<Str("SCIFI")>>), a),
                                      Case(ObjV(<<"genre", "minPages">>, <<Str("DRAMA"), Num(100)>>), b),
                                      Case(ObjV(<<"tags">>, <<Lst(<<Str("a"), Str("b")>>)>>), c) >>, Lst(<<>>))
E7_idsFn(a, b) == Fn("ids", << Case(Lst(<<Str("n1")>>), a), Case(Lst(<<Str("n2"), Str("n1")>>), b), Case(Lst(<<>>), Lst(<<>>)) >>, Lst(<<Null>>))
E7_mood(x, y) == Fn("of", <<Case(Str("SCIFI"), x), Case(Str("DRAMA"), y)>>, Null)
E7_extra(x, y) == Fn("opts", <<Case(E7_optsA, x), Case(E7_optsB, y)>>, Null)
E7_U1 == Uv("all-present", <<
  O("Q", "Query", [books |-> E7_booksFn(Lst(<<Ref("k1"), Ref("k2")>>), Lst(<<Ref("k1")>>), Lst(<<Ref("k2")>>)),
                   find |-> E7_findFn(Lst(<<Ref("k1")>>), Lst(<<Ref("k2")>>), Lst(<<Ref("k2"), Ref("k1")>>)),
                   byIds |-> E7_idsFn(Lst(<<Ref("k1")>>), Lst(<<Ref("k2"), Ref("k1")>>))]),
  O("k1", "Book", [sn |-> Str("n1"), title |-> Str("Dune"), genre |-> Str("SCIFI"),
                   meta |-> ObjV(<<"a", "b">>, <<Num(1), Lst(<<Str("x"), Null, ObjV(<<"c">>, <<Bool(TRUE)>>)>>)>>),
                   pages |-> Num(600), mood |-> E7_mood(Str("wow"), Str("meh")), stamp |-> Str("2020-01-01T00:00:00Z"),
                   extra |-> E7_extra(ObjV(<<"k">>, <<Str("v")>>), Lst(<<Num(1), Num(2)>>))]),
  O("k2", "Book", [sn |-> Str("n2"), title |-> Str("Emma"), genre |-> Str("DRAMA"), meta |-> Str("plain"),
                   pages |-> Num(300), mood |-> E7_mood(Str("hm"), Str("yes")), stamp |-> Str("1815-12-23"),
                   extra |-> E7_extra(Num(7), Bool(FALSE))]) >>)
E7_U2 == Uv("nullable-nulls", <<
  O("Q", "Query", [books |-> E7_booksFn(Lst(<<Ref("k1"), Ref("k2")>>), Lst(<<Ref("k1")>>), Lst(<<>>)),
                   find |-> E7_findFn(Null, Lst(<<Ref("k2"), Null>>), Lst(<<Null>>)),
                   byIds |-> E7_idsFn(Lst(<<Null>>), Lst(<<Ref("k2"), Null>>))]),
  O("k1", "Book", [sn |-> Str("n1"), title |-> Str("Dune"), genre |-> Str("SCIFI"), meta |-> Null,
                   pages |-> Null, mood |-> E7_mood(Null, Str("meh")), stamp |-> Null, extra |-> E7_extra(Null, ObjV(<<>>, <<>>))]),
  O("k2", "Book", [sn |-> Str("n2"), title |-> Str("Emma"), genre |-> Str("DRAMA"), meta |-> Lst(<<>>),
                   pages |-> Num(300), mood |-> E7_mood(Str("hm"), Null), stamp |-> Str("1815-12-23"), extra |-> E7_extra(Num(7), Null)]) >>)
E7_U3 == Uv("null-in-nonnull", <<
  O("Q", "Query", [books |-> E7_booksFn(Lst(<<Ref("k1"), Ref("k2")>>), Lst(<<Ref("k1")>>), Lst(<<Ref("k2")>>)),
                   find |-> E7_findFn(Lst(<<Ref("k1")>>), Lst(<<Ref("k2")>>), Lst(<<Ref("k2"), Ref("k1")>>)),
                   byIds |-> E7_idsFn(Lst(<<Ref("k1")>>), Lst(<<Ref("k2"), Ref("k1")>>))]),
  O("k1", "Book", [sn |-> Str("n1"), title |-> Str("Dune"), genre |-> Str("SCIFI"), meta |-> Num(1),
                   pages |-> Num(600), mood |-> E7_mood(Str("wow"), Str("meh")), stamp |-> Str("s1"), extra |-> E7_extra(Num(1), Num(2))]),
  O("k2", "Book", [sn |-> Str("n2"), title |-> Null, genre |-> Null, meta |-> Num(2),
                   pages |-> Num(300), mood |-> E7_mood(Str("hm"), Str("yes")), stamp |-> Str("s2"), extra |-> E7_extra(Num(3), Num(4))]) >>)
E7_U4 == Uv("empty-lists", <<
  O("Q", "Query", [books |-> E7_booksFn(Lst(<<>>), Lst(<<>>), Lst(<<>>)), find |-> E7_findFn(Lst(<<>>), Lst(<<>>), Lst(<<>>)),
                   byIds |-> E7_idsFn(Lst(<<>>), Lst(<<>>))]) >>)

E7 == Entry("values", <<E7_shop, E7_stats>>, <<E7_U1, E7_U2, E7_U3, E7_U4>>,
  << Menu("Query.books", << <<>>, <<Arg("genre", EnumV("SCIFI"))>>, <<Arg("genre", Var("g"))>> >>),
     Menu("Query.find", << <<Arg("filter", ObjV(<<"genre">>, <<EnumV("SCIFI")>>))>>,
                           <<Arg("filter", ObjV(<<"genre", "minPages">>, <<Var("g"), Num(100)>>))>>,
                           <<Arg("filter", Var("f"))>> >>),
     Menu("Query.byIds", << <<Arg("ids", Lst(<<Str("n2"), Str("n1")>>))>>, <<Arg("ids", Lst(<<Var("one")>>))>>, <<Arg("ids", Var("ids"))>> >>),
     Menu("Book.mood", << <<Arg("of", EnumV("DRAMA"))>>, <<Arg("of", Var("g"))>> >>),
     Menu("Book.extra", << <<Arg("opts", E7_optsA)>>, <<Arg("opts", Var("o"))>> >>) >>,
  << VarM("g", NN(Ty("Genre")), <<Str("DRAMA"), Str("SCIFI")>>),
     VarM("f", NN(Ty("BookFilter")), <<ObjV(<<"tags">>, <<Lst(<<Str("a"), Str("b")>>)>>), ObjV(<<"genre">>, <<Str("SCIFI")>>)>>),
     VarM("one", NN(TID), <<Str("n1"), Str("n3")>>),
     VarM("ids", NN(Li(NN(TID))), <<Lst(<<Str("n1")>>), Lst(<<>>)>>),
     VarM("o", Ty("Opts"), <<E7_optsB, E7_optsA>>) >>,
  << Op(Doc(<< Field("books", "", <<Arg("genre", EnumV("DRAMA"))>>, <<>>,
                     <<Fl("title"), Fl("genre"), Fl("meta"), Fl("stamp"), Field("mood", "", <<Arg("of", EnumV("SCIFI"))>>, <<>>, <<>>)>>) >>, <<>>, <<>>), <<>>),
     Op(Doc(<< Field("find", "", <<Arg("filter", ObjV(<<"genre", "minPages">>, <<Var("g"), Num(100)>>))>>, <<>>,
                     <<Fl("pages"), Field("extra", "", <<Arg("opts", Var("o"))>>, <<>>, <<>>)>>),
               Field("byIds", "", <<Arg("ids", Lst(<<Var("one")>>))>>, <<>>, <<Fl("title"), Fl("pages")>>) >>, <<>>,
            <<VarDef("g", NN(Ty("Genre")), Absent), VarDef("o", Ty("Opts"), Absent), VarDef("one", NN(TID), Absent)>>),
        <<Bind("g", Str("DRAMA")), Bind("o", E7_optsA), Bind("one", Str("n1"))>>) >>)

\* ============================================================================ E8 "mutations"
\* a Mutation root split over two subgraphs; `bump` / `bumpR` add to the world's single counter and return it, so the
\* SERIAL execution of root mutation fields in document order (GraphQL Oct-2021 6.2.2), also across subgraphs, is
\* visible in `data`; mutation fields that return entities / value types continued in the other subgraph
E8_accounts == SG("accounts", <<
  Obj("Query", <<>>, <<>>, << F("me", Ty("User")) >>),
  Obj("Mutation", <<>>, <<>>, << FA("bump", NN(TInt), "by", NN(TInt)), FA("touch", Ty("User"), "id", NN(TID)) >>),
  Obj("User", <<Key(<<FS("id")>>)>>, <<>>, << F("id", NN(TID)), F("name", NN(TStr)) >>) >>)
E8_reviews == SG("reviews", <<
  Obj("Mutation", <<>>, <<>>, << FA("bumpR", NN(TInt), "by", NN(TInt)), FA("post", Ty("Review"), "body", NN(TStr)) >>),
  Obj("User", <<Key(<<FS("id")>>)>>, <<>>, << F("id", NN(TID)), F("reviews", Li(NN(Ty("Review")))) >>),
  Obj("Review", <<>>, <<>>, << F("body", NN(TStr)), F("author", Ty("User")) >>) >>)
E8_M == O("M", "Mutation", [bump |-> Ctr("by"), bumpR |-> Ctr("by"),
                            touch |-> Fn("id", <<Case(Str("1"), Ref("u1")), Case(Str("2"), Ref("u2"))>>, Null),
                            post |-> Fn("body", <<Case(Str("hi"), Ref("r1"))>>, Ref("r2"))])
E8_U1 == Uv("all-present", <<
  O("Q", "Query", [me |-> Ref("u1")]), E8_M,
  O("u1", "User", [id |-> Str("1"), name |-> Str("Ann"), reviews |-> Lst(<<Ref("r1")>>)]),
  O("u2", "User", [id |-> Str("2"), name |-> Str("Bob"), reviews |-> Lst(<<Ref("r2"), Ref("r1")>>)]),
  O("r1", "Review", [body |-> Str("hi"), author |-> Ref("u2")]),
  O("r2", "Review", [body |-> Str("other"), author |-> Ref("u1")]) >>)
E8_U2 == Uv("nullable-nulls", <<
  O("Q", "Query", [me |-> Null]), E8_M,
  O("u1", "User", [id |-> Str("1"), name |-> Str("Ann"), reviews |-> Null]),
  O("u2", "User", [id |-> Str("2"), name |-> Str("Bob"), reviews |-> Lst(<<>>)]),
  O("r1", "Review", [body |-> Str("hi"), author |-> Null]),
  O("r2", "Review", [body |-> Str("other"), author |-> Ref("u2")]) >>)
E8_U3 == Uv("null-in-nonnull", <<
  O("Q", "Query", [me |-> Ref("u2")]), E8_M,
  O("u1", "User", [id |-> Str("1"), name |-> Str("Ann"), reviews |-> Lst(<<Ref("r1")>>)]),
  O("u2", "User", [id |-> Str("2"), name |-> Null, reviews |-> Lst(<<Ref("r2")>>)]),
  O("r1", "Review", [body |-> Str("hi"), author |-> Ref("u2")]),
  O("r2", "Review", [body |-> Null, author |-> Ref("u1")]) >>)

E8 == Entry("mutations", <<E8_accounts, E8_reviews>>, <<E8_U1, E8_U2, E8_U3>>,
  << Menu("Mutation.bump", << <<Arg("by", Num(1))>>, <<Arg("by", Num(100))>>, <<Arg("by", Var("n"))>> >>),
     Menu("Mutation.bumpR", << <<Arg("by", Num(10))>>, <<Arg("by", Var("n"))>> >>),
     Menu("Mutation.touch", << <<Arg("id", Str("1"))>>, <<Arg("id", Str("2"))>>, <<Arg("id", Var("uid"))>> >>),
     Menu("Mutation.post", << <<Arg("body", Str("hi"))>>, <<Arg("body", Var("b"))>> >>) >>,
  << VarM("n", NN(TInt), <<Num(3), Num(5)>>), VarM("uid", NN(TID), <<Str("2"), Str("7")>>), VarM("b", NN(TStr), <<Str("hi"), Str("zz")>>) >>,
  << Op(Doc(<< Fo("me", <<Fl("name"), Fo("reviews", <<Fl("body"), Fo("author", <<Fl("name")>>)>>)>>) >>, <<>>, <<>>), <<>>),
     Op(MDoc(<< Field("bump", "a", <<Arg("by", Num(1))>>, <<>>, <<>>), Field("bumpR", "b", <<Arg("by", Num(10))>>, <<>>, <<>>),
                Field("bump", "c", <<Arg("by", Num(100))>>, <<>>, <<>>), Field("bumpR", "d", <<Arg("by", Var("n"))>>, <<>>, <<>>),
                Field("touch", "", <<Arg("id", Str("2"))>>, <<>>, <<Fl("name"), Fo("reviews", <<Fl("body")>>)>>),
                Field("post", "", <<Arg("body", Str("hi"))>>, <<>>, <<Fl("body"), Fo("author", <<Fl("name")>>)>>) >>, <<>>,
             <<VarDef("n", NN(TInt), Absent)>>), <<Bind("n", Num(5))>>) >>)

\* ============================================================================ E9 "iface"
\* an interface defined in BOTH subgraphs with different fields (an interface field the current subgraph does not have
\* must be fetched per concrete entity type: the abstract selection rewriter), a root field shared by two subgraphs, a
\* value type shared by two subgraphs below entities
E9_catalog == SG("catalog", <<
  Obj("Query", <<>>, <<>>, << F("media", NN(Li(NN(Ty("Media"))))), F("latest", Ty("Media")) >>),
  Iface("Media", << F("id", NN(TID)), F("title", TStr) >>),
  Obj("Book", <<Key(<<FS("id")>>)>>, <<"Media">>, << F("id", NN(TID)), F("title", TStr), F("isbn", TStr) >>),
  Obj("Film", <<Key(<<FS("id")>>)>>, <<"Media">>, << F("id", NN(TID)), F("title", TStr), F("director", Ty("Person")) >>),
  Obj("Person", <<>>, <<>>, << F("name", NN(TStr)) >>) >>)
E9_ratings == SG("ratings", <<
  Obj("Query", <<>>, <<>>, << F("top", Li(Ty("Media"))), F("latest", Ty("Media")) >>),
  Iface("Media", << F("id", NN(TID)), F("score", TInt) >>),
  Obj("Book", <<Key(<<FS("id")>>)>>, <<"Media">>, << F("id", NN(TID)), F("score", TInt), F("blurb", TStr) >>),
  Obj("Film", <<Key(<<FS("id")>>)>>, <<"Media">>, << F("id", NN(TID)), F("score", TInt), F("cast", Li(NN(Ty("Person")))) >>),
  Obj("Person", <<>>, <<>>, << F("name", NN(TStr)) >>) >>)
E9_U1 == Uv("all-present", <<
  O("Q", "Query", [media |-> Lst(<<Ref("b1"), Ref("f1"), Ref("f2")>>), top |-> Lst(<<Ref("f1"), Ref("b1"), Ref("f1")>>), latest |-> Ref("f2")]),
  O("b1", "Book", [id |-> Str("b1"), title |-> Str("Dune"), isbn |-> Str("i1"), score |-> Num(5), blurb |-> Str("sand")]),
  O("f1", "Film", [id |-> Str("f1"), title |-> Str("Alien"), director |-> Ref("p1"), score |-> Num(4), cast |-> Lst(<<Ref("p2"), Ref("p1")>>)]),
  O("f2", "Film", [id |-> Str("f2"), title |-> Str("Heat"), director |-> Ref("p2"), score |-> Num(3), cast |-> Lst(<<>>)]),
  O("p1", "Person", [name |-> Str("Rid")]),
  O("p2", "Person", [name |-> Str("Sig")]) >>)
E9_U2 == Uv("nullable-nulls", <<
  O("Q", "Query", [media |-> Lst(<<Ref("f1"), Ref("b1")>>), top |-> Lst(<<Null, Ref("b1"), Ref("f1")>>), latest |-> Null]),
  O("b1", "Book", [id |-> Str("b1"), title |-> Null, isbn |-> Null, score |-> Null, blurb |-> Str("sand")]),
  O("f1", "Film", [id |-> Str("f1"), title |-> Str("Alien"), director |-> Null, score |-> Num(4), cast |-> Null]) >>)
E9_U3 == Uv("null-in-nonnull", <<
  O("Q", "Query", [media |-> Lst(<<Ref("b1"), Ref("f1")>>), top |-> Lst(<<Ref("f1"), Ref("b1")>>), latest |-> Ref("f1")]),
  O("b1", "Book", [id |-> Str("b1"), title |-> Str("Dune"), isbn |-> Str("i1"), score |-> Num(5), blurb |-> Str("sand")]),
  O("f1", "Film", [id |-> Str("f1"), title |-> Str("Alien"), director |-> Ref("p1"), score |-> Num(4), cast |-> Lst(<<Ref("p1")>>)]),
  O("p1", "Person", [name |-> Null]) >>)
E9_U4 == Uv("empty-lists", <<
  O("Q", "Query", [media |-> Lst(<<>>), top |-> Lst(<<>>), latest |-> Ref("b1")]),
  O("b1", "Book", [id |-> Str("b1"), title |-> Str("Dune"), isbn |-> Str("i1"), score |-> Num(5), blurb |-> Null]) >>)
E9 == Entry("iface", <<E9_catalog, E9_ratings>>, <<E9_U1, E9_U2, E9_U3, E9_U4>>, <<>>, <<>>,
  << Op(Doc(<< Fo("top", <<Fl("id"), Fl("title"), Fl("score"), Inline("Book", <<>>, <<Fl("isbn"), Fl("blurb")>>)>>) >>, <<>>, <<>>), <<>>),
     Op(Doc(<< Fo("media", <<Fl("score"), Inline("Film", <<>>, <<Fo("cast", <<Fl("name")>>), Fo("director", <<Fl("name")>>)>>)>>),
               Fo("latest", <<Fl("__typename"), Fl("title"), Fl("score")>>) >>, <<>>, <<>>), <<>>) >>)

\* ============================================================================ E10 "abstract2"
\* abstract-type shapes around entity jumps (lifted from the seeded changes C01-1..4): an interface-typed list with two
\* implementers in the data; the same nested entity selected directly on the interface AND inside a type fragment
\* (fetch de-duplication of an unscoped and a type-scoped fetch); @requires on an implementer's copy of a shared
\* interface field, selected next to a fragment on that very type (abstract selection rewriter); a LIST field selected
\* directly on an interface-typed parent whose items need a key jump (batch entity fetch); a fragment on an interface
\* whose implementers are declared in NON-alphabetical order (Post before Comment)
E10_first == SG("first", <<
  Obj("Query", <<>>, <<>>, << F("account", Ty("Node")), F("accounts", NN(Li(NN(Ty("Node"))))), F("nodes", NN(Li(NN(Ty("Item"))))) >>),
  Iface("Node", << F("id", NN(TID)), F("title", NN(TStr)), F("some", Ty("User")), F("friends", NN(Li(NN(Ty("User"))))) >>),
  Obj("User", <<Key(<<FS("id")>>)>>, <<"Node">>,
      << F("id", NN(TID)), Ext(F("name", NN(TStr))), Req(F("title", NN(TStr)), <<FS("name")>>), F("some", Ty("User")),
         F("friends", NN(Li(NN(Ty("User"))))) >>),
  Obj("Admin", <<Key(<<FS("id")>>)>>, <<"Node">>,
      << F("id", NN(TID)), F("title", NN(TStr)), F("some", Ty("User")), F("friends", NN(Li(NN(Ty("User"))))), F("level", TInt) >>),
  Iface("Item", << F("id", NN(TID)) >>),
  Iface("Owned", << F("owner", NN(Ty("User"))) >>),
  Obj("Post", <<>>, <<"Item", "Owned">>, << F("id", NN(TID)), F("owner", NN(Ty("User"))) >>),
  Obj("Comment", <<>>, <<"Item", "Owned">>, << F("id", NN(TID)), F("owner", NN(Ty("User"))), F("text", TStr) >>) >>)
E10_second == SG("second", <<
  Obj("User", <<Key(<<FS("id")>>)>>, <<>>, << F("id", NN(TID)), F("name", NN(TStr)), F("nick", TStr) >>),
  Obj("Admin", <<Key(<<FS("id")>>)>>, <<>>, << F("id", NN(TID)), F("adminName", NN(TStr)) >>) >>)

E10_U1 == Uv("all-present", <<
  O("Q", "Query", [account |-> Ref("a1"), accounts |-> Lst(<<Ref("u1"), Ref("a1"), Ref("u2")>>), nodes |-> Lst(<<Ref("p1"), Ref("c1"), Ref("p2")>>)]),
  O("u1", "User", [id |-> Str("u1"), name |-> Str("Ann"), nick |-> Str("an"), some |-> Ref("u2"), friends |-> Lst(<<Ref("u2")>>)]),
  O("u2", "User", [id |-> Str("u2"), name |-> Str("Bob"), nick |-> Str("bo"), some |-> Ref("u1"), friends |-> Lst(<<>>)]),
  O("a1", "Admin", [id |-> Str("a1"), title |-> Str("Root"), adminName |-> Str("adm"), level |-> Num(9), some |-> Ref("u1"),
                    friends |-> Lst(<<Ref("u1"), Ref("u2"), Ref("u1")>>)]),
  O("p1", "Post", [id |-> Str("p1"), owner |-> Ref("u1")]),
  O("p2", "Post", [id |-> Str("p2"), owner |-> Ref("u2")]),
  O("c1", "Comment", [id |-> Str("c1"), owner |-> Ref("u2"), text |-> Str("nice")]) >>)
E10_U2 == Uv("nullable-nulls", <<
  O("Q", "Query", [account |-> Null, accounts |-> Lst(<<Ref("a1"), Ref("u1")>>), nodes |-> Lst(<<Ref("c1"), Ref("p1")>>)]),
  O("u1", "User", [id |-> Str("u1"), name |-> Str("Ann"), nick |-> Null, some |-> Null, friends |-> Lst(<<Ref("u1")>>)]),
  O("a1", "Admin", [id |-> Str("a1"), title |-> Str("Root"), adminName |-> Str("adm"), level |-> Null, some |-> Null, friends |-> Lst(<<>>)]),
  O("p1", "Post", [id |-> Str("p1"), owner |-> Ref("u1")]),
  O("c1", "Comment", [id |-> Str("c1"), owner |-> Ref("u1"), text |-> Null]) >>)
\* (the null in a non-null position sits on the Admin: User.name feeds the @requires of User.title)
E10_U3 == Uv("null-in-nonnull", <<
  O("Q", "Query", [account |-> Ref("u1"), accounts |-> Lst(<<Ref("u1"), Ref("a1")>>), nodes |-> Lst(<<Ref("p1"), Ref("c1")>>)]),
  O("u1", "User", [id |-> Str("u1"), name |-> Str("Ann"), nick |-> Str("an"), some |-> Ref("u1"), friends |-> Lst(<<Ref("u1")>>)]),
  O("a1", "Admin", [id |-> Str("a1"), title |-> Str("Root"), adminName |-> Null, level |-> Num(1), some |-> Ref("u1"), friends |-> Lst(<<Ref("u1")>>)]),
  O("p1", "Post", [id |-> Str("p1"), owner |-> Ref("u1")]),
  O("c1", "Comment", [id |-> Str("c1"), owner |-> Null, text |-> Str("x")]) >>)
E10_U4 == Uv("empty-lists", <<
  O("Q", "Query", [account |-> Ref("a1"), accounts |-> Lst(<<>>), nodes |-> Lst(<<>>)]),
  O("a1", "Admin", [id |-> Str("a1"), title |-> Str("Root"), adminName |-> Str("adm"), level |-> Num(9), some |-> Null, friends |-> Lst(<<>>)]) >>)

E10 == Entry("abstract2", <<E10_first, E10_second>>, <<E10_U1, E10_U2, E10_U3, E10_U4>>, <<>>, <<>>,
  << Op(Doc(<< Fo("accounts", <<Fo("some", <<Fl("name")>>), Inline("User", <<>>, <<Fo("some", <<Fl("name")>>)>>)>>) >>, <<>>, <<>>), <<>>),
     Op(Doc(<< Fo("accounts", <<Fl("title"), Inline("User", <<>>, <<Fl("id")>>)>>) >>, <<>>, <<>>), <<>>),
     Op(Doc(<< Fo("account", <<Fo("friends", <<Fl("name")>>)>>) >>, <<>>, <<>>), <<>>),
     Op(Doc(<< Fo("nodes", <<Inline("Owned", <<>>, <<Fo("owner", <<Fl("name")>>)>>)>>) >>, <<>>, <<>>), <<>>),
     Op(Doc(<< Fo("accounts", <<Fl("id"), Fl("title"), Inline("Admin", <<>>, <<Fl("adminName"), Fl("level")>>), Fo("friends", <<Fl("nick"), Fl("title")>>)>>),
               Fo("nodes", <<Fl("__typename"), Inline("Comment", <<>>, <<Fl("text"), Fo("owner", <<Fl("nick")>>)>>)>>) >>, <<>>, <<>>), <<>>) >>)

\* ============================================================================ E11 "requires2"
\* @requires CHAINS: top.top requires `mid`, which mid.mid computes from `base` (owned by base); a field requiring an
\* owned and a computed input at once; a @requires with scalar and nested value-type inputs together
E11_base == SG("base", <<
  Obj("Query", <<>>, <<>>, << F("things", NN(Li(NN(Ty("Thing"))))), FA("thing", Ty("Thing"), "id", NN(TID)) >>),
  Obj("Thing", <<Key(<<FS("id")>>)>>, <<>>, << F("id", NN(TID)), F("base", TInt), F("unit", Ty("Unit")), F("note", Ty("Note")) >>),
  Obj("Unit", <<>>, <<>>, << F("code", TStr), F("factor", TInt) >>),
  Obj("Note", <<>>, <<>>, << F("text", NN(TStr)) >>) >>)
E11_mid == SG("mid", <<
  Obj("Thing", <<Key(<<FS("id")>>)>>, <<>>,
      << F("id", NN(TID)), Ext(F("base", TInt)), Ext(F("unit", Ty("Unit"))),
         Req(F("mid", TStr), <<FS("base")>>),
         Req(F("wide", TStr), <<FS("base"), FSN("unit", <<FS("code"), FS("factor")>>)>>) >>),
  Obj("Unit", <<>>, <<>>, << Ext(F("code", TStr)), Ext(F("factor", TInt)) >>) >>)
E11_top == SG("top", <<
  Obj("Thing", <<Key(<<FS("id")>>)>>, <<>>,
      << F("id", NN(TID)), Ext(F("mid", TStr)), Ext(F("base", TInt)),
         Req(F("top", TStr), <<FS("mid")>>),
         Req(F("both", TStr), <<FS("base"), FS("mid")>>) >>) >>)
E11_thingFn == Fn("id", <<Case(Str("t1"), Ref("t1")), Case(Str("t2"), Ref("t2"))>>, Null)
E11_U1 == Uv("all-present", <<
  O("Q", "Query", [things |-> Lst(<<Ref("t1"), Ref("t2")>>), thing |-> E11_thingFn]),
  O("t1", "Thing", [id |-> Str("t1"), base |-> Num(3), unit |-> Ref("n1"), note |-> Ref("o1")]),
  O("t2", "Thing", [id |-> Str("t2"), base |-> Num(5), unit |-> Ref("n2"), note |-> Ref("o1")]),
  O("n1", "Unit", [code |-> Str("kg"), factor |-> Num(2)]),
  O("n2", "Unit", [code |-> Str("lb"), factor |-> Num(7)]),
  O("o1", "Note", [text |-> Str("memo")]) >>)
E11_U2 == Uv("nullable-nulls", <<
  O("Q", "Query", [things |-> Lst(<<Ref("t1"), Ref("t2")>>), thing |-> E11_thingFn]),
  O("t1", "Thing", [id |-> Str("t1"), base |-> Null, unit |-> Null, note |-> Null]),
  O("t2", "Thing", [id |-> Str("t2"), base |-> Num(5), unit |-> Ref("n2"), note |-> Null]),
  O("n2", "Unit", [code |-> Null, factor |-> Num(7)]) >>)
\* (the null in a non-null position sits on a Note, from which no @requires input is read)
E11_U3 == Uv("null-in-nonnull", <<
  O("Q", "Query", [things |-> Lst(<<Ref("t1"), Ref("t2")>>), thing |-> E11_thingFn]),
  O("t1", "Thing", [id |-> Str("t1"), base |-> Num(3), unit |-> Ref("n1"), note |-> Ref("o1")]),
  O("t2", "Thing", [id |-> Str("t2"), base |-> Num(5), unit |-> Ref("n1"), note |-> Ref("o2")]),
  O("n1", "Unit", [code |-> Str("kg"), factor |-> Num(2)]),
  O("o1", "Note", [text |-> Str("memo")]),
  O("o2", "Note", [text |-> Null]) >>)
E11_U4 == Uv("empty-lists", <<
  O("Q", "Query", [things |-> Lst(<<>>), thing |-> E11_thingFn]),
  O("t1", "Thing", [id |-> Str("t1"), base |-> Num(3), unit |-> Null, note |-> Null]) >>)
E11 == Entry("requires2", <<E11_base, E11_mid, E11_top>>, <<E11_U1, E11_U2, E11_U3, E11_U4>>,
  << Menu("Query.thing", << <<Arg("id", Str("t1"))>>, <<Arg("id", Str("t2"))>>, <<Arg("id", Var("tid"))>> >>) >>,
  << VarM("tid", NN(TID), <<Str("t2"), Str("t1")>>) >>,
  << Op(Doc(<< Fo("things", <<Fl("top")>>) >>, <<>>, <<>>), <<>>),
     Op(Doc(<< Fo("things", <<Fl("both"), Fl("wide"), Fl("mid"), Fo("note", <<Fl("text")>>)>>) >>, <<>>, <<>>), <<>>),
     Op(Doc(<< Field("thing", "", <<Arg("id", Str("t2"))>>, <<>>, <<Fl("top"), Fl("base"), Fo("unit", <<Fl("code")>>)>>) >>, <<>>, <<>>), <<>>) >>)

\* ============================================================================ E12 "keys2"
\* an entity reached through FOUR subgraphs with a KEY CHANGE at every hop (a -> b c -> d { e }), compound and nested
\* keys inside a list of lists and behind a union, and the way back (peers: d { e } -> b c -> x)
E12_a == SG("a", <<
  Obj("Query", <<>>, <<>>, << F("grid", Li(Li(Ty("Thing")))), F("anys", NN(Li(NN(Ty("Any"))))), F("first", Ty("Thing")) >>),
  Uni("Any", <<"Thing", "Other">>),
  Obj("Other", <<>>, <<>>, << F("label", NN(TStr)) >>),
  Obj("Thing", <<Key(<<FS("a")>>)>>, <<>>, << F("a", NN(TID)) >>) >>)
E12_b == SG("b", <<
  Obj("Thing", <<Key(<<FS("a")>>), Key(<<FS("b"), FS("c")>>)>>, <<>>, << F("a", NN(TID)), F("b", NN(TStr)), F("c", NN(TInt)), F("x", TStr) >>) >>)
E12_c == SG("c", <<
  Obj("Thing", <<Key(<<FS("b"), FS("c")>>), Key(<<FSN("d", <<FS("e")>>)>>)>>, <<>>,
      << F("b", NN(TStr)), F("c", NN(TInt)), F("d", NN(Ty("D"))), F("y", TStr) >>),
  Obj("D", <<>>, <<>>, << F("e", NN(TID)) >>) >>)
E12_d == SG("d", <<
  Obj("Thing", <<Key(<<FSN("d", <<FS("e")>>)>>)>>, <<>>, << F("d", NN(Ty("D"))), F("z", TStr), F("peers", Li(NN(Ty("Thing")))) >>),
  Obj("D", <<>>, <<>>, << F("e", NN(TID)) >>) >>)
E12_U1 == Uv("all-present", <<
  O("Q", "Query", [grid |-> Lst(<<Lst(<<Ref("k1"), Ref("k2")>>), Lst(<<Ref("k2")>>)>>), anys |-> Lst(<<Ref("k1"), Ref("oth"), Ref("k3")>>), first |-> Ref("k3")]),
  O("k1", "Thing", [a |-> Str("1"), b |-> Str("x"), c |-> Num(1), d |-> Ref("d1"), x |-> Str("x1"), y |-> Str("y1"), z |-> Str("z1"), peers |-> Lst(<<Ref("k2"), Ref("k3")>>)]),
  O("k2", "Thing", [a |-> Str("2"), b |-> Str("x"), c |-> Num(2), d |-> Ref("d2"), x |-> Str("x2"), y |-> Str("y2"), z |-> Str("z2"), peers |-> Lst(<<>>)]),
  O("k3", "Thing", [a |-> Str("3"), b |-> Str("w"), c |-> Num(1), d |-> Ref("d3"), x |-> Str("x3"), y |-> Str("y3"), z |-> Str("z3"), peers |-> Lst(<<Ref("k1")>>)]),
  O("d1", "D", [e |-> Str("e1")]), O("d2", "D", [e |-> Str("e2")]), O("d3", "D", [e |-> Str("e3")]),
  O("oth", "Other", [label |-> Str("other")]) >>)
E12_U2 == Uv("nullable-nulls", <<
  O("Q", "Query", [grid |-> Lst(<<Null, Lst(<<Ref("k1"), Null>>), Lst(<<>>)>>), anys |-> Lst(<<Ref("k2"), Ref("k1")>>), first |-> Null]),
  O("k1", "Thing", [a |-> Str("1"), b |-> Str("x"), c |-> Num(1), d |-> Ref("d1"), x |-> Null, y |-> Str("y1"), z |-> Null, peers |-> Null]),
  O("k2", "Thing", [a |-> Str("2"), b |-> Str("x"), c |-> Num(2), d |-> Ref("d2"), x |-> Str("x2"), y |-> Null, z |-> Str("z2"), peers |-> Lst(<<Ref("k1")>>)]),
  O("d1", "D", [e |-> Str("e1")]), O("d2", "D", [e |-> Str("e2")]) >>)
E12_U3 == Uv("null-in-nonnull", <<
  O("Q", "Query", [grid |-> Lst(<<Lst(<<Ref("k1")>>)>>), anys |-> Lst(<<Ref("k1"), Ref("oth")>>), first |-> Ref("k1")]),
  O("k1", "Thing", [a |-> Str("1"), b |-> Str("x"), c |-> Num(1), d |-> Ref("d1"), x |-> Str("x1"), y |-> Str("y1"), z |-> Str("z1"), peers |-> Lst(<<Ref("k1")>>)]),
  O("d1", "D", [e |-> Str("e1")]),
  O("oth", "Other", [label |-> Null]) >>)
E12_U4 == Uv("empty-lists", <<
  O("Q", "Query", [grid |-> Lst(<<Lst(<<>>)>>), anys |-> Lst(<<>>), first |-> Ref("k1")]),
  O("k1", "Thing", [a |-> Str("1"), b |-> Str("x"), c |-> Num(1), d |-> Ref("d1"), x |-> Str("x1"), y |-> Str("y1"), z |-> Str("z1"), peers |-> Lst(<<>>)]),
  O("d1", "D", [e |-> Str("e1")]) >>)
E12 == Entry("keys2", <<E12_a, E12_b, E12_c, E12_d>>, <<E12_U1, E12_U2, E12_U3, E12_U4>>, <<>>, <<>>,
  << Op(Doc(<< Fo("first", <<Fl("z")>>) >>, <<>>, <<>>), <<>>),
     Op(Doc(<< Fo("grid", <<Fl("z"), Fl("x")>>) >>, <<>>, <<>>), <<>>),
     Op(Doc(<< Fo("anys", <<Fl("__typename"), Inline("Thing", <<>>, <<Fl("y"), Fo("peers", <<Fl("x"), Fl("a")>>)>>), Inline("Other", <<>>, <<Fl("label")>>)>>) >>, <<>>, <<>>), <<>>) >>)

\* ============================================================================ E13 "requires3"
\* @requires with an ARGUMENT on the required field: offers.offer needs price(cur: "EUR") of prices; the client may
\* select price with other arguments next to it (the planner has to alias / remap the required selection).
\* (FedNondet keys its slots of key / @requires inputs without arguments: this entry's requiring field is left out there.)
E13_prices == SG("prices", <<
  Obj("Query", <<>>, <<>>, << F("wares", NN(Li(NN(Ty("Ware"))))) >>),
  Obj("Ware", <<Key(<<FS("id")>>)>>, <<>>, << F("id", NN(TID)), FA("price", TInt, "cur", NN(TStr)), F("label", TStr), F("details", Ty("Details")) >>),
  Obj("Details", <<>>, <<>>, << FA("cost", TInt, "cur", NN(TStr)), F("note", TStr) >>) >>)
E13_offers == SG("offers", <<
  Obj("Ware", <<Key(<<FS("id")>>)>>, <<>>,
      << F("id", NN(TID)), Ext(FA("price", TInt, "cur", NN(TStr))), Ext(F("label", TStr)),
         Req(F("offer", TStr), <<FSA("price", <<Arg("cur", Str("EUR"))>>)>>),
         Req(F("offer2", TStr), <<FSA("price", <<Arg("cur", Str("USD"))>>), FS("label")>>),
         Req(F("tag", TStr), <<FS("label")>>),
         \* a NESTED required field with an argument: the client may select details { cost(cur: "EUR") } next to it
         Ext(F("details", Ty("Details"))),
         Req(F("ship", TStr), <<FSN("details", <<FSA("cost", <<Arg("cur", Str("USD"))>>), FS("note")>>)>>) >>),
  Obj("Details", <<>>, <<>>, << Ext(FA("cost", TInt, "cur", NN(TStr))), Ext(F("note", TStr)) >>) >>)
E13_price(e, u) == Fn("cur", <<Case(Str("EUR"), e), Case(Str("USD"), u)>>, Null)
E13_U1 == Uv("all-present", <<
  O("Q", "Query", [wares |-> Lst(<<Ref("w1"), Ref("w2")>>)]),
  O("w1", "Ware", [id |-> Str("w1"), price |-> E13_price(Num(10), Num(12)), label |-> Str("one"), details |-> Ref("x1")]),
  O("w2", "Ware", [id |-> Str("w2"), price |-> E13_price(Num(20), Num(23)), label |-> Str("two"), details |-> Ref("x2")]),
  O("x1", "Details", [cost |-> E13_price(Num(1), Num(2)), note |-> Str("n1")]),
  O("x2", "Details", [cost |-> E13_price(Num(3), Num(4)), note |-> Str("n2")]) >>)
E13_U2 == Uv("nullable-nulls", <<
  O("Q", "Query", [wares |-> Lst(<<Ref("w1"), Ref("w2")>>)]),
  O("w1", "Ware", [id |-> Str("w1"), price |-> E13_price(Null, Num(12)), label |-> Null, details |-> Null]),
  O("w2", "Ware", [id |-> Str("w2"), price |-> E13_price(Num(20), Null), label |-> Str("two"), details |-> Ref("x2")]),
  O("x2", "Details", [cost |-> E13_price(Num(3), Null), note |-> Null]) >>)
E13_U3 == Uv("empty-lists", << O("Q", "Query", [wares |-> Lst(<<>>)]) >>)
E13 == Entry("requires3", <<E13_prices, E13_offers>>, <<E13_U1, E13_U2, E13_U3>>,
  << Menu("Ware.price", << <<Arg("cur", Str("USD"))>>, <<Arg("cur", Str("EUR"))>>, <<Arg("cur", Var("cur"))>> >>),
     Menu("Details.cost", << <<Arg("cur", Str("EUR"))>>, <<Arg("cur", Str("USD"))>>, <<Arg("cur", Var("cur"))>> >>) >>,
  << VarM("cur", NN(TStr), <<Str("USD"), Str("CHF")>>) >>,
  << Op(Doc(<< Fo("wares", <<Fl("tag"), Fl("label"), Field("price", "", <<Arg("cur", Str("USD"))>>, <<>>, <<>>)>>) >>, <<>>, <<>>), <<>>) >>)

\* ============================================================================ the catalog
Catalog == <<[E1 EXCEPT !.broken = E1_broken], E2, E3, [E4 EXCEPT !.broken2 = E4_inconsistent], E5, E6, E7, E8, E9, E10, E11, E12, E13>>
Supers == TLCEval([i \in DOMAIN Catalog |-> SuperTypes(Catalog[i].sgs)])
Subs == TLCEval([i \in DOMAIN Catalog |-> TLCEval([j \in DOMAIN Catalog[i].sgs |-> SubTypes(Catalog[i].sgs[j])])])

\* <<type, field>> pairs mentioned by any @key or @requires field set of the entry (what a gateway may have to
\* fetch although the client did not ask for it)
RECURSIVE SelPairs(_, _, _)
SelPairs(types, tn, sel) ==
  UNION {{<<tn, sel[i].name>>} \cup
         (IF sel[i].sel # <<>> /\ HasField(types, tn, sel[i].name)
          THEN SelPairs(types, FieldOf(types, tn, sel[i].name).type.n, sel[i].sel) ELSE {}) : i \in DOMAIN sel}
SupportPairs(e) ==
  UNION {UNION {
     LET td == Catalog[e].sgs[j].types[a]
     IN UNION {SelPairs(Supers[e], td.name, td.keys[k].sel) : k \in DOMAIN td.keys}
        \cup UNION {SelPairs(Supers[e], td.name, td.fields[f].req) : f \in DOMAIN td.fields}
     : a \in DOMAIN Catalog[e].sgs[j].types} : j \in DOMAIN Catalog[e].sgs}
SupPairs == TLCEval([e \in DOMAIN Catalog |-> TLCEval(SupportPairs(e))])

\* catalog sanity, model-checked before anything is generated (an operator WITH a parameter: a zero-arity
\* constant definition would be pre-evaluated by TLC at the start of every run that extends this module)
EntryOK(i) ==
  /\ Composable(Catalog[i].sgs)
  /\ \A u \in DOMAIN Catalog[i].universes : Consistent(Catalog[i].sgs, Supers[i], Catalog[i].universes[u])
\* the deliberately inconsistent universes must be REJECTED by the predicate (non-vacuity)
NegativesRejected ==
  /\ ~Consistent(Catalog[1].sgs, Supers[1], Catalog[1].broken)       \* duplicate key
  /\ ~Consistent(Catalog[4].sgs, Supers[4], Catalog[4].broken2)      \* two owners of a shared field disagree
=============================================================================
