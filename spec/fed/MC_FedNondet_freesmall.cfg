SPECIFICATION FreeSmallSpec
INVARIANT FedRefinesMonolith
CHECK_DEADLOCK TRUE
