SPECIFICATION GenSpec
CONSTRAINT GenConstraint
CHECK_DEADLOCK FALSE
