------------------------------ MODULE FedNondet ------------------------------
(* The NONDETERMINISTIC federated executor (C01).                             *)
(*                                                                            *)
(* State: the slots <<object, field, argument>> fetched so far with the       *)
(* values the subgraphs returned (kv) = the gateway's partial response, and  *)
(* the relation `kat`: <<o, sg, o2, prov>> = "subgraph sg can resolve fields   *)
(* of the gateway's object o, which it sees as o2, with field set prov        *)
(* provided".                                                                 *)
(*   FetchField(slot, position): enabled iff the subgraph is positioned on    *)
(*      the object (root, child of an object fetched from it, or entity       *)
(*      entered through a key), the field is Resolvable by it there (owned,   *)
(*      or @external but key / provided), and the @requires inputs of the     *)
(*      field are already fetched; the value is what the subgraph answers     *)
(*      (its data; @requires computed FROM THE FETCHED inputs); children      *)
(*      become positioned in that subgraph.                                   *)
(*   Entering an entity through a key: sg has a RESOLVABLE key of the type    *)
(*      whose fields are fetched; sg looks the entity up by the key VALUES.   *)
(*      Entering only ever adds positions, so it is applied eagerly (closure  *)
(*      EnterAll after a key field was fetched) instead of being interleaved. *)
(* What may be fetched: the slots the partial response still demands (kdem)    *)
(* and the key / @requires-input fields of every object seen so far.          *)
(* Fetches of different slots commute (each only adds its slot), therefore    *)
(* the ORDER of independent fetches is fixed (a partial-order reduction);     *)
(* what stays nondeterministic is what a planner really chooses: WHICH owner  *)
(* answers a slot and THROUGH WHICH position.  The real planner is one        *)
(* resolution of that nondeterminism.                                         *)
(* Checked by TLC for every catalog entry x universe x pinned operation:      *)
(*   FedRefinesMonolith : every terminating behaviour yields Exec(monolith)   *)
(*   deadlock freedom   : a demanded slot is never unreachable (= the layout  *)
(*                        can be planned; pins which layouts are legitimate)  *)
EXTENDS FedCatalog, Json, IOUtils

VARIABLES kcfg, kv, kat, kdem       \* kdem = slots the current partial response still demands
fvars == <<kcfg, kv, kat, kdem>>

Ent == Catalog[kcfg.e]
Sgs == Ent.sgs
TheU == CASE kcfg.u = 0 -> Ent.broken [] kcfg.u = 99 -> Ent.broken2 [] OTHER -> Ent.universes[kcfg.u]
TheOp == [doc |-> kcfg.doc, vars |-> kcfg.vars]     \* pinned (kcfg.i > 0) or read from the file of generated cases
Sup == Supers[kcfg.e]
SubT(sg) == Subs[kcfg.e][sg]

\* what subgraph sg answers for a field: the universe's value unless the universe records a deviation for that owner
SgData(sg, o, fn) ==
  IF \E i \in DOMAIN TheU.over : TheU.over[i].sg = Sgs[sg].name /\ TheU.over[i].o = o /\ TheU.over[i].f = fn
  THEN TheU.over[CHOOSE i \in DOMAIN TheU.over : TheU.over[i].sg = Sgs[sg].name /\ TheU.over[i].o = o /\ TheU.over[i].f = fn].v
  ELSE FieldData(Sub(SubT(sg), TheU), o, fn)
MonoResult == Exec(Mono(Sup, TheU), TheOp.doc, TheOp.vars)
FedResultOf(v) == Exec(Fed(Sup, TheU, v), TheOp.doc, TheOp.vars)
FedResult == FedResultOf(kv)

RECURSIVE Markers(_)
Markers(v) ==
  CASE v.t = "?" -> {<<v.o, v.f, v.a>>}
    [] v.t \in {"o", "l"} -> UNION {Markers(v.v[i]) : i \in DOMAIN v.v}
    [] OTHER -> {}
DemandedOf(v) == Markers(FedResultOf(v).data)
Terminated == kdem = {}

TypeOfObj(o) == TheU.objs[o].type
RECURSIVE RefsIn(_)
RefsIn(v) == CASE v.t = "r" -> {v.v} [] v.t = "l" -> UNION {RefsIn(v.v[i]) : i \in DOMAIN v.v} [] OTHER -> {}
SeenObjs(v) == ({x[1] : x \in DOMAIN v} \cup UNION {RefsIn(v[x]) : x \in DOMAIN v}) \cap DOMAIN TheU.objs

RECURSIVE KnownSel(_, _, _), ProjVal(_, _, _)
KnownSel(v, o, sel) ==
  \A i \in DOMAIN sel :
     /\ <<o, sel[i].name, "">> \in DOMAIN v
     /\ sel[i].sel = <<>> \/ LET x == v[<<o, sel[i].name, "">>]
                             IN x.t = "n" \/ (x.t = "r" /\ KnownSel(v, x.v, sel[i].sel))
ProjVal(v, o, sel) ==
  ObjV(Names(sel), [i \in DOMAIN sel |->
        LET x == v[<<o, sel[i].name, "">>]
        IN IF sel[i].sel = <<>> \/ x.t # "r" THEN x ELSE ProjVal(v, x.v, sel[i].sel)])

\* what the gateway may fetch next: demanded slots + key / @requires-input fields of the objects seen so far
Wanted == (kdem \cup {<<o, p[2], "">> : o \in SeenObjs(kv), p \in SupPairs[kcfg.e]}) \ DOMAIN kv
WantedOK(s) == s \in kdem \/ <<TypeOfObj(s[1]), s[2]>> \in SupPairs[kcfg.e]

ArgOfDig(dv, a) == IF \E i \in DOMAIN dv.m : Dig(dv.m[i].k) = a THEN dv.m[CHOOSE i \in DOMAIN dv.m : Dig(dv.m[i].k) = a].v ELSE dv.d

\* the subgraph p[2], positioned on s[1] through p \in kat, can resolve slot s now
FetchOK(s, p) ==
  /\ p[1] = s[1]
  /\ Resolvable(SubT(p[2]), TheU.objs[p[3]].type, s[2], p[4])
  /\ LET fd == FieldOf(SubT(p[2]), TheU.objs[p[3]].type, s[2]) IN fd.req # <<>> => KnownSel(kv, s[1], fd.req)
Fetchable == {s \in {w \in Wanted : WantedOK(w)} : \E p \in kat : FetchOK(s, p)}

\* positions obtainable through resolvable keys whose fields are fetched in v (every matching candidate: with
\* unique keys there is exactly one)
EnterAll(v) ==
  UNION {UNION {UNION {
     LET key == TypeOf(SubT(sg), TypeOfObj(o)).keys[k]
     IN IF key.res /\ KnownSel(v, o, key.sel)
        THEN LET pv == ProjVal(v, o, key.sel)
                 rep == ObjV(<<"__typename">> \o pv.k, <<Str(TypeOfObj(o))>> \o pv.v)
                 M == Sub(SubT(sg), TheU)
             IN {<<o, sg, o2, <<>>>> : o2 \in {c \in DOMAIN TheU.objs : TheU.objs[c].type = TypeOfObj(o) /\ MatchSel(M, key.sel, c, rep)}}
        ELSE {}
     : k \in DOMAIN TypeOf(SubT(sg), TypeOfObj(o)).keys}
     : sg \in {j \in DOMAIN Sgs : IsType(SubT(j), TypeOfObj(o))}}
     : o \in SeenObjs(v)}

FetchField(s, p) ==
  /\ FetchOK(s, p)
  /\ LET sg == p[2]
         o == s[1]
         fn == s[2]
         o2 == p[3]
         tn == TheU.objs[o2].type
         M == Sub(SubT(sg), TheU)
         fd == FieldOf(SubT(sg), tn, fn)
         dv == SgData(sg, o2, fn)
         v == IF fd.req # <<>> THEN ReqValue(fn, ProjVal(kv, o, fd.req))
              ELSE IF dv.t = "fn" THEN ArgOfDig(dv, s[3]) ELSE dv
         cprov == IF fd.prov # <<>> THEN fd.prov ELSE ProvSub(p[4], fn)
         nv == [x \in DOMAIN kv \cup {s} |-> IF x = s THEN v ELSE kv[x]]
     IN /\ kv' = nv
        /\ kdem' = IF s \in kdem THEN DemandedOf(nv) ELSE kdem
        /\ kat' = kat \cup {<<r, sg, r, cprov>> : r \in (RefsIn(v) \cap DOMAIN TheU.objs)}
                    \cup (IF <<tn, fn>> \in SupPairs[kcfg.e] THEN EnterAll(nv) ELSE {})
        /\ UNCHANGED kcfg

Done == Terminated /\ UNCHANGED fvars

Start(c) ==
  /\ kcfg = c
  /\ kv = <<>>
  /\ kdem = Markers(Exec(Fed(Supers[c.e], CASE c.u = 0 -> Catalog[c.e].broken [] c.u = 99 -> Catalog[c.e].broken2
                                                  [] OTHER -> Catalog[c.e].universes[c.u], <<>>),
                        c.doc, c.vars).data)
  /\ kat = {<<"Q", sg, "Q", <<>>>> : sg \in {j \in DOMAIN Catalog[c.e].sgs : HasName(Catalog[c.e].sgs[j].types, "Query")}}
\* (mutations have effects, which this model does not describe: queries only)
FedInit ==
  \E e \in DOMAIN Catalog : \E u \in DOMAIN Catalog[e].universes : \E i \in {j \in DOMAIN Catalog[e].ops : Catalog[e].ops[j].doc.op = "query" /\ ~Catalog[e].ops[j].nomodel} :
     Start([e |-> e, u |-> u, i |-> i, doc |-> Catalog[e].ops[i].doc, vars |-> Catalog[e].ops[i].vars])
\* negative control: a universe whose keys are NOT unique (two users share an id)
NegInit == \E i \in DOMAIN Catalog[1].ops : Start([e |-> 1, u |-> 0, i |-> i, doc |-> Catalog[1].ops[i].doc, vars |-> Catalog[1].ops[i].vars])
\* second negative control: two owners of a shared field disagree (OwnersAgree is false)
Neg2Init == \E i \in DOMAIN Catalog[4].ops : Start([e |-> 4, u |-> 99, i |-> i, doc |-> Catalog[4].ops[i].doc, vars |-> Catalog[4].ops[i].vars])
\* the same model on operations produced by Gen_C01 (NDJSON lines [e, doc, vars], file name in C01_OPS)
GenOps == ndJsonDeserialize(IOEnv.C01_OPS)
FileInit ==
  \E n \in DOMAIN GenOps : \E u \in DOMAIN Catalog[GenOps[n].e].universes :
     Start([e |-> GenOps[n].e, u |-> u, i |-> 0, doc |-> GenOps[n].doc, vars |-> GenOps[n].vars])

FedNext ==
  \/ /\ Fetchable # {}
     /\ LET s == CHOOSE x \in Fetchable : TRUE       \* fixed order of independent fetches
        IN \E p \in kat : FetchField(s, p)
  \/ Done
FedSpec == FedInit /\ [][FedNext]_fvars
NegSpec == NegInit /\ [][FedNext]_fvars
FileSpec == FileInit /\ [][FedNext]_fvars
Neg2Spec == Neg2Init /\ [][FedNext]_fvars
\* EVERY order of the independent fetches (no partial-order reduction) on one small entry: the refinement and
\* deadlock freedom do not depend on the fixed order used above
FreeNext ==
  \/ \E s \in Fetchable : \E p \in kat : FetchField(s, p)
  \/ Done
FreeInit == \E e \in {1, 4} : \E u \in DOMAIN Catalog[e].universes : \E i \in DOMAIN Catalog[e].ops :
              Start([e |-> e, u |-> u, i |-> i, doc |-> Catalog[e].ops[i].doc, vars |-> Catalog[e].ops[i].vars])
FreeSpec == FreeInit /\ [][FreeNext]_fvars
\* (quick tier: two operations of the first entry)
FreeSmallInit == \E u \in DOMAIN Catalog[1].universes : \E i \in {1, 3} :
                   Start([e |-> 1, u |-> u, i |-> i, doc |-> Catalog[1].ops[i].doc, vars |-> Catalog[1].ops[i].vars])
FreeSmallSpec == FreeSmallInit /\ [][FreeNext]_fvars

FedRefinesMonolith ==
  Terminated => /\ VEq(FedResult.data, MonoResult.data)
                /\ FedResult.err = MonoResult.err
=============================================================================
