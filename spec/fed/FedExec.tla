------------------------------- MODULE FedExec -------------------------------
(* Reference GraphQL execution (C01) -- ONE executor, two modes:             *)
(*   Mono(types, u)  : a single server owning the whole supergraph + data     *)
(*   Sub(types, u)   : one subgraph: its own schema, _entities, @requires     *)
(*                     computed from the representation, @external fields     *)
(*                     only where provided                                    *)
(* Exec(M, doc, vars) = [data, err]: CollectFields (type conditions,          *)
(* @skip/@include, fragments), merging by response key, CompleteValue with    *)
(* list / non-null handling and null propagation (GraphQL Oct-2021 sec. 6).   *)
(* (TLCEval forces the per-field / per-item result functions: TLC would       *)
(* otherwise re-evaluate a lazily built function at every application.)       *)
(* RequestOK(M, doc, vars): the operation is valid for the subgraph schema    *)
(* and asks only for fields the subgraph can resolve at that position.        *)
EXTENDS FedLayout

Mono(types, u) == [types |-> types, u |-> u, sub |-> FALSE, fed |-> FALSE, seq0 |-> 0]
Sub(types, u) == [types |-> types, u |-> u, sub |-> TRUE, fed |-> FALSE, seq0 |-> 0]
\* a subgraph answering a mutation when the world's counter stands at n
SubAt(types, u, n) == [types |-> types, u |-> u, sub |-> TRUE, fed |-> FALSE, seq0 |-> n]
\* the gateway's view used by FedNondet: field values come from the slots fetched so far (val), a slot that
\* has not been fetched yields a marker [t |-> "?"] that survives completion
Fed(types, u, val) == [types |-> types, u |-> u, sub |-> FALSE, fed |-> TRUE, val |-> val, seq0 |-> 0]
Unknown(o, fn, a) == [t |-> "?", o |-> o, f |-> fn, a |-> a]

Poison == Str("!external")

\* ------------------------------------------------------------------ variables, arguments, directives
VarVal(vars, n) == IF HasName(vars, n) THEN ByName(vars, n).val ELSE Absent
\* apply the defaults of the variable definitions to an assignment (sequence of [name, val])
WithDefaults(defs, vars) ==
  LET miss == SelectSeq(defs, LAMBDA d : ~HasName(vars, d.name) /\ d.def # Absent)
  IN vars \o [i \in DOMAIN miss |-> [name |-> miss[i].name, val |-> miss[i].def]]
\* the value of an argument / directive value: variables substituted (also inside list and object literals), enum
\* literals in their JSON form (the name as a string) -- what a server sees after coercion
RECURSIVE ValOf(_, _)
ValOf(C, x) ==
  CASE x.t = "v" -> VarVal(C.vars, x.v)
    [] x.t = "e" -> Str(x.v)
    [] x.t = "l" -> Lst([i \in DOMAIN x.v |-> ValOf(C, x.v[i])])
    [] x.t = "o" -> ObjV(x.k, [i \in DOMAIN x.v |-> ValOf(C, x.v[i])])
    [] OTHER -> x
ArgVal(C, args, n) == IF HasName(args, n) THEN ValOf(C, ByName(args, n).val) ELSE Absent
DirTrue(C, d) == LET x == ValOf(C, d.val) IN x.t = "b" /\ x.v
Skipped(C, dirs) ==
  \E i \in DOMAIN dirs : \/ dirs[i].name = "skip" /\ DirTrue(C, dirs[i])
                         \/ dirs[i].name = "include" /\ ~DirTrue(C, dirs[i])

\* ------------------------------------------------------------------ equality of JSON values (object key order ignored)
RECURSIVE VEq(_, _)
VEq(a, b) ==
  IF a.t # b.t THEN FALSE
  ELSE CASE a.t = "o" -> /\ Len(a.k) = Len(b.k)
                         /\ Range(a.k) = Range(b.k)
                         /\ Cardinality(Range(a.k)) = Len(a.k)
                         /\ \A i \in DOMAIN a.k : VEq(a.v[i], b.v[Idx(b.k, a.k[i])])
         [] a.t = "l" -> Len(a.v) = Len(b.v) /\ \A i \in DOMAIN a.v : VEq(a.v[i], b.v[i])
         [] a.t \in {"n", "x"} -> TRUE
         [] OTHER -> a.v = b.v

\* ------------------------------------------------------------------ data access
ObjExists(M, o) == o \in DOMAIN M.u.objs
ObjType(M, o) == M.u.objs[o].type
FieldData(M, o, fn) == LET fs == M.u.objs[o].f IN IF fn \in DOMAIN fs THEN fs[fn] ELSE Null
\* (the case keys are compared as JSON values: input objects in any key order)
ApplyFn(val, a) ==
  IF val.t # "fn" THEN val
  ELSE IF \E i \in DOMAIN val.m : VEq(val.m[i].k, a) THEN val.m[CHOOSE i \in DOMAIN val.m : VEq(val.m[i].k, a)].v ELSE val.d

RepGet(rep, n) == IF rep.t = "o" /\ Has(rep.k, n) THEN rep.v[Idx(rep.k, n)] ELSE Absent

\* digest of a tagged value (order of the field set, keys ignored): the value of a @requires field is a
\* deterministic function of its inputs, so a missing or wrong input is visible in the response
RECURSIVE Dig(_), DigSeq(_)
Dig(v) == CASE v.t = "n" -> "~"
            [] v.t = "x" -> "?"
            [] v.t = "s" -> v.v
            [] v.t = "e" -> v.v
            [] v.t = "i" -> ToString(v.v)
            [] v.t = "b" -> IF v.v THEN "T" ELSE "F"
            [] v.t = "l" -> "[" \o DigSeq(v.v) \o "]"
            [] v.t = "o" -> "{" \o DigSeq(v.v) \o "}"
            [] OTHER -> "!"
DigSeq(s) == IF s = <<>> THEN "" ELSE Dig(Head(s)) \o (IF Len(s) > 1 THEN "," ELSE "") \o DigSeq(Tail(s))
ReqValue(fn, inputs) == Str(fn \o ":" \o Dig(inputs))

\* projection of a field set from the universe (monolith) / from a representation (subgraph)
\* (a required field may itself be @requires-computed -- a requires CHAIN: its value is derived, not stored)
RECURSIVE ProjD(_, _, _), ProjDV(_, _, _), DataOrDerived(_, _, _)
DataOrDerived(M, o, fn) ==
  LET tn == ObjType(M, o)
  IN IF HasField(M.types, tn, fn) /\ FieldOf(M.types, tn, fn).req # <<>>
     THEN ReqValue(fn, ProjD(M, FieldOf(M.types, tn, fn).req, o))
     ELSE FieldData(M, o, fn)
\* (a field-set entry may carry literal arguments: @requires(fields: "price(cur: \"EUR\")"))
FsArg(fs, n) == IF HasName(fs.args, n) THEN ValOf([vars |-> <<>>], ByName(fs.args, n).val) ELSE Absent
ProjD(M, sel, o) ==
  ObjV(Names(sel), [i \in DOMAIN sel |->
         LET raw == DataOrDerived(M, o, sel[i].name)
             dv == IF raw.t = "fn" THEN ApplyFn(raw, FsArg(sel[i], raw.a)) ELSE raw
         IN IF sel[i].sel = <<>> THEN dv ELSE ProjDV(M, sel[i].sel, dv)])
ProjDV(M, sel, dv) ==
  CASE dv.t = "r" -> ProjD(M, sel, dv.v)
    [] dv.t = "l" -> Lst([i \in DOMAIN dv.v |-> ProjDV(M, sel, dv.v[i])])
    [] OTHER -> dv
RECURSIVE ProjRep(_, _)
ProjRep(sel, rv) ==
  CASE rv.t = "o" -> ObjV(Names(sel), [i \in DOMAIN sel |->
                        LET x == RepGet(rv, sel[i].name) IN IF sel[i].sel = <<>> THEN x ELSE ProjRep(sel[i].sel, x)])
    [] rv.t = "l" -> Lst([i \in DOMAIN rv.v |-> ProjRep(sel, rv.v[i])])
    [] OTHER -> rv

\* ------------------------------------------------------------------ _entities
RECURSIVE MatchSel(_, _, _, _)
MatchSel(M, sel, o, rep) ==
  \A i \in DOMAIN sel :
     LET rv == RepGet(rep, sel[i].name)
         dv == FieldData(M, o, sel[i].name)
     IN IF sel[i].sel = <<>> THEN rv = dv
        ELSE dv.t = "r" /\ MatchSel(M, sel[i].sel, dv.v, rv)
\* the first resolvable key of the type all of whose top-level fields are in the representation decides
Lookup(M, rep) ==
  LET tnv == RepGet(rep, "__typename")
  IN IF tnv.t # "s" THEN Null
     ELSE IF ~IsType(M.types, tnv.v) THEN Null
     ELSE LET td == TypeOf(M.types, tnv.v)
              ks == SelectSeq(td.keys, LAMBDA k : k.res /\ \A i \in DOMAIN k.sel : RepGet(rep, k.sel[i].name) # Absent)
          IN IF ks = <<>> THEN Null
             ELSE LET cands == {o \in DOMAIN M.u.objs : M.u.objs[o].type = tnv.v /\ MatchSel(M, ks[1].sel, o, rep)}
                  IN IF cands = {} THEN Null ELSE [t |-> "h", id |-> CHOOSE o \in cands : TRUE, rep |-> rep]

\* ------------------------------------------------------------------ field resolution
TypenameField == F("__typename", NN(Ty("String")))
FieldDefOf(M, tn, fn) == IF fn = "__typename" THEN TypenameField ELSE FieldOf(M.types, tn, fn)

IntArg(C, args, n) == LET x == ArgVal(C, args, n) IN IF x.t = "i" THEN x.v ELSE 0
\* h = [id, rep, prov]: object, the representation it was looked up with (Absent if none), provided field set
Resolve(C, tn, h, fd, args) ==
  LET M == C.M IN
  IF M.fed THEN
     LET a == IF fd.args = <<>> THEN "" ELSE Dig(ArgVal(C, args, fd.args[1].name))
     IN IF <<h.id, fd.name, a>> \in DOMAIN M.val THEN M.val[<<h.id, fd.name, a>>] ELSE Unknown(h.id, fd.name, a)
  ELSE IF ~M.sub THEN
     IF fd.req # <<>> THEN ReqValue(fd.name, ProjD(M, fd.req, h.id))
     ELSE LET dv == FieldData(M, h.id, fd.name)
          IN CASE dv.t = "fn" -> ApplyFn(dv, ArgVal(C, args, dv.a))
               [] dv.t = "ctr" -> Num(C.ctr + IntArg(C, args, dv.a))
               [] OTHER -> dv
  ELSE
     IF tn = "Query" /\ fd.name = "_entities" THEN
        LET reps == ArgVal(C, args, "representations")
        IN IF reps.t # "l" THEN Null ELSE Lst([i \in DOMAIN reps.v |-> Lookup(M, reps.v[i])])
     ELSE IF ~Resolvable(M.types, tn, fd.name, h.prov) THEN Poison
     ELSE IF fd.req # <<>> THEN ReqValue(fd.name, ProjRep(fd.req, h.rep))
     ELSE LET dv == FieldData(M, h.id, fd.name)
          IN CASE dv.t = "fn" -> ApplyFn(dv, ArgVal(C, args, dv.a))
               [] dv.t = "ctr" -> Num(C.ctr + IntArg(C, args, dv.a))
               [] OTHER -> dv

ChildProv(C, h, fd) ==
  IF ~C.M.sub THEN <<>>
  ELSE IF fd.prov # <<>> THEN fd.prov
  ELSE ProvSub(h.prov, fd.name)

TypeApplies(M, cond, tn) == cond = "" \/ cond = tn \/ tn \in Possible(M.types, cond)

\* ------------------------------------------------------------------ the executor
Raise == [v |-> Null, e |-> TRUE, r |-> TRUE]      \* a field error propagating to the parent
Ok(v) == [v |-> v, e |-> FALSE, r |-> FALSE]

RECURSIVE Collect(_, _, _)
Collect(C, tn, sels) ==
  IF sels = <<>> THEN <<>>
  ELSE LET s == Head(sels)
           rest == Collect(C, tn, Tail(sels))
       IN IF Skipped(C, s.dirs) THEN rest
          ELSE CASE s.k = "f" -> <<s>> \o rest
                 [] s.k = "i" -> IF TypeApplies(C.M, s.on, tn) THEN Collect(C, tn, s.sel) \o rest ELSE rest
                 [] OTHER -> IF HasName(C.frags, s.name) /\ TypeApplies(C.M, ByName(C.frags, s.name).on, tn)
                             THEN Collect(C, tn, ByName(C.frags, s.name).sel) \o rest ELSE rest

RECURSIVE ExecSet(_, _, _), ExecField(_, _, _, _), Complete(_, _, _, _, _, _), CompleteInner(_, _, _, _, _, _), Serial(_, _, _, _, _, _)
\* what a root mutation field adds to the world's counter
BumpOf(C, h, f) ==
  LET dv == FieldData(C.M, h.id, f.name)
  IN IF dv.t = "ctr" /\ HasField(C.M.types, "Mutation", f.name) THEN IntArg(C, f.args, dv.a) ELSE 0
\* root fields of a mutation are executed SERIALLY in document order, each seeing the effects of the previous ones
Serial(C, tn, h, flat, keys, ctr) ==
  IF keys = <<>> THEN <<>>
  ELSE LET grp == SelectSeq(flat, LAMBDA f : RKey(f) = Head(keys))
           C2 == [C EXCEPT !.ctr = ctr]
       IN <<ExecField(C2, tn, h, grp)>> \o Serial(C, tn, h, flat, Tail(keys), ctr + BumpOf(C2, h, grp[1]))
ExecSet(C, sels, h) ==
  LET tn == ObjType(C.M, h.id)
      flat == Collect(C, tn, sels)
      keys == Dedup([i \in DOMAIN flat |-> RKey(flat[i])])
      res == IF tn = "Mutation" THEN TLCEval(Serial(C, tn, h, flat, keys, C.ctr))
             ELSE TLCEval([i \in DOMAIN keys |-> ExecField(C, tn, h, SelectSeq(flat, LAMBDA f : RKey(f) = keys[i]))])
  IN IF \E i \in DOMAIN res : res[i].r THEN Raise
     ELSE [v |-> ObjV(keys, [i \in DOMAIN res |-> res[i].v]), e |-> \E i \in DOMAIN res : res[i].e, r |-> FALSE]

ExecField(C, tn, h, group) ==
  LET f == group[1] IN
  IF f.name = "__typename" THEN Ok(Str(tn))
  ELSE IF ~HasField(C.M.types, tn, f.name) THEN Ok(Str("!undefined"))
  ELSE LET fd == FieldDefOf(C.M, tn, f.name)
           raw == Resolve(C, tn, h, fd, f.args)
           sub == Flat([i \in DOMAIN group |-> group[i].sel])
       IN Complete(C, fd.type.w, fd.type.n, sub, raw, ChildProv(C, h, fd))

\* a position of type w n: non-null positions raise on null, nullable positions absorb a raise
Complete(C, w, n, sub, raw, prov) ==
  IF w # <<>> /\ Head(w) = "N"
  THEN LET i == Complete(C, Tail(w), n, sub, raw, prov) IN IF i.r \/ i.v.t = "n" THEN Raise ELSE i
  ELSE LET i == CompleteInner(C, w, n, sub, raw, prov) IN IF i.r THEN [v |-> Null, e |-> TRUE, r |-> FALSE] ELSE i

CompleteInner(C, w, n, sub, raw, prov) ==
  IF raw.t = "n" THEN Ok(Null)
  ELSE IF raw.t = "?" THEN Ok(raw)
  ELSE IF w # <<>> THEN \* Head(w) = "L"
     IF raw.t # "l" THEN Ok(Null)
     ELSE LET items == TLCEval([i \in DOMAIN raw.v |-> Complete(C, Tail(w), n, sub, raw.v[i], prov)])
          IN IF \E i \in DOMAIN items : items[i].r THEN Raise
             ELSE [v |-> Lst([i \in DOMAIN items |-> items[i].v]), e |-> \E i \in DOMAIN items : items[i].e, r |-> FALSE]
  ELSE IF ~IsComposite(C.M.types, n) THEN Ok(raw)
  ELSE CASE raw.t = "r" -> IF ObjExists(C.M, raw.v) THEN ExecSet(C, sub, [id |-> raw.v, rep |-> Absent, prov |-> prov]) ELSE Ok(Null)
         [] raw.t = "h" -> ExecSet(C, sub, [id |-> raw.id, rep |-> raw.rep, prov |-> prov])
         [] OTHER -> Ok(Null)

RootId(doc) == IF doc.op = "mutation" THEN "M" ELSE "Q"
RootType(doc) == IF doc.op = "mutation" THEN "Mutation" ELSE "Query"
Exec(M, doc, vars) ==
  LET C == [M |-> M, frags |-> doc.frags, vars |-> WithDefaults(doc.vars, vars), ctr |-> M.seq0]
      r == ExecSet(C, doc.sel, [id |-> RootId(doc), rep |-> Absent, prov |-> <<>>])
  IN [data |-> IF r.r THEN Null ELSE r.v, err |-> r.e]

\* ------------------------------------------------------------------ RequestOK
\* Validity of an operation against the subgraph's own schema (the rules that matter for a generated
\* upstream operation) + ownership: every selected field is Resolvable at its position.
RECURSIVE SelOK(_, _, _, _)
ArgsOK(C, fd, args) ==
  /\ \A i \in DOMAIN args : HasName(fd.args, args[i].name)
  /\ \A i \in DOMAIN args : args[i].val.t = "v" => HasName(C.vdefs, args[i].val.v)
  /\ \A i \in DOMAIN fd.args :
        (fd.args[i].type.w # <<>> /\ Head(fd.args[i].type.w) = "N") =>
           /\ HasName(args, fd.args[i].name)
           /\ LET x == ArgVal(C, args, fd.args[i].name) IN x.t \notin {"n", "x"}
DirsOK(C, dirs) ==
  \A i \in DOMAIN dirs : /\ dirs[i].name \in {"skip", "include"}
                         /\ dirs[i].val.t = "v" => HasName(C.vdefs, dirs[i].val.v)
                         /\ ValOf(C, dirs[i].val).t = "b"
SelOK(C, tn, sels, prov) ==
  /\ sels # <<>>
  /\ \A i \in DOMAIN sels :
       LET s == sels[i] IN
       /\ DirsOK(C, s.dirs)
       /\ CASE s.k = "f" ->
                 IF s.name = "__typename" THEN s.sel = <<>> /\ s.args = <<>>
                 ELSE /\ HasField(C.M.types, tn, s.name)
                      /\ (tn = "Query" /\ s.name = "_entities") \/ Resolvable(C.M.types, tn, s.name, prov)
                      /\ LET fd == FieldOf(C.M.types, tn, s.name)
                         IN /\ ArgsOK(C, fd, s.args)
                            /\ IF IsComposite(C.M.types, fd.type.n)
                               THEN SelOK(C, fd.type.n, s.sel, IF fd.prov # <<>> THEN fd.prov ELSE ProvSub(prov, s.name))
                               ELSE s.sel = <<>>
            [] s.k = "i" ->
                 /\ s.on = "" \/ IsType(C.M.types, s.on)
                 /\ LET on == IF s.on = "" THEN tn ELSE s.on
                    IN /\ (Possible(C.M.types, on) \cap Possible(C.M.types, tn)) # {}
                       /\ SelOK(C, on, s.sel, prov)
            [] OTHER ->
                 /\ HasName(C.frags, s.name)
                 /\ LET fr == ByName(C.frags, s.name)
                    IN /\ IsType(C.M.types, fr.on)
                       /\ (Possible(C.M.types, fr.on) \cap Possible(C.M.types, tn)) # {}
                       /\ SelOK(C, fr.on, fr.sel, prov)

\* every representation names an entity type of this subgraph, carries all fields of one of its RESOLVABLE
\* keys, and the inputs of every @requires field selected for that type  (= the enabling condition of a
\* federated fetch, checked on the request itself)
RECURSIVE RequiredBy(_, _, _)
RequiredBy(C, tn, sels) ==   \* @requires field sets of the fields selected for type tn under _entities
  Flat([i \in DOMAIN sels |->
     LET s == sels[i] IN
     CASE s.k = "f" -> IF s.name # "__typename" /\ HasField(C.M.types, tn, s.name) /\ FieldOf(C.M.types, tn, s.name).req # <<>>
                       THEN <<FieldOf(C.M.types, tn, s.name).req>> ELSE <<>>
       [] s.k = "i" -> IF s.on = "" \/ s.on = tn \/ tn \in Possible(C.M.types, s.on) THEN RequiredBy(C, tn, s.sel) ELSE <<>>
       [] OTHER -> IF HasName(C.frags, s.name) /\ tn \in Possible(C.M.types, ByName(C.frags, s.name).on)
                   THEN RequiredBy(C, tn, ByName(C.frags, s.name).sel) ELSE <<>>])
RECURSIVE RepHas(_, _)
RepHas(rep, sel) ==
  CASE rep.t = "o" -> \A i \in DOMAIN sel : LET x == RepGet(rep, sel[i].name)
                                            IN x # Absent /\ (sel[i].sel = <<>> \/ RepHas(x, sel[i].sel))
    [] rep.t = "l" -> \A i \in DOMAIN rep.v : RepHas(rep.v[i], sel)
    [] rep.t = "n" -> TRUE
    [] OTHER -> FALSE
RepOK(C, rep, esel) ==
  LET tnv == RepGet(rep, "__typename")
  IN /\ tnv.t = "s"
     /\ IsType(C.M.types, tnv.v)
     /\ LET td == TypeOf(C.M.types, tnv.v)
            reqs == RequiredBy(C, tnv.v, esel)
        IN /\ \E k \in DOMAIN td.keys : td.keys[k].res /\ RepHas(rep, td.keys[k].sel)
           /\ \A i \in DOMAIN reqs : RepHas(rep, reqs[i])
EntitiesOK(C, sels) ==
  \A i \in DOMAIN sels :
     (sels[i].k = "f" /\ sels[i].name = "_entities") =>
        LET reps == ArgVal(C, sels[i].args, "representations")
        IN reps.t = "l" /\ reps.v # <<>> /\ \A j \in DOMAIN reps.v : RepOK(C, reps.v[j], sels[i].sel)

RequestOK(M, doc, vars) ==
  LET C == [M |-> M, frags |-> doc.frags, vars |-> WithDefaults(doc.vars, vars), vdefs |-> doc.vars, ctr |-> 0]
  IN SelOK(C, RootType(doc), doc.sel, <<>>) /\ EntitiesOK(C, doc.sel)

\* ------------------------------------------------------------------ consistent data universes
\* "Consistent" = the universes the property quantifies over, a TLC-checked predicate on EVERY catalog universe:
\*   WellTyped      objects have object types of the supergraph and only fields of their type
\*   UniqueKeys     no two objects of a type agree on a key of any subgraph
\*   KeysPresent    key fields are never null
\*   InputsClean    an object from which a @requires input is read has no null in a non-null position (a subgraph's
\*                  own null propagation would wipe the input: no batching gateway could answer like the monolith)
\*   OwnersAgree    every owner of a shared field returns the same value (u.over = per-subgraph deviations)
WellTyped(types, u) ==
  /\ "Q" \in DOMAIN u.objs /\ u.objs["Q"].type = "Query"
  /\ IsType(types, "Mutation") => ("M" \in DOMAIN u.objs /\ u.objs["M"].type = "Mutation")
  /\ \A o \in DOMAIN u.objs :
        /\ IsType(types, u.objs[o].type) /\ TypeOf(types, u.objs[o].type).kind = "OBJECT"
        /\ \A fn \in DOMAIN u.objs[o].f : HasField(types, u.objs[o].type, fn)
UniqueKeys(sgs, types, u) ==
  \A i \in DOMAIN sgs : \A a \in DOMAIN sgs[i].types : \A k \in DOMAIN sgs[i].types[a].keys :
     LET tn == sgs[i].types[a].name
         sel == sgs[i].types[a].keys[k].sel
         M == Mono(types, u)
     IN \A o, p \in DOMAIN u.objs :
           (o # p /\ u.objs[o].type = tn /\ u.objs[p].type = tn) => ProjD(M, sel, o) # ProjD(M, sel, p)
RECURSIVE NoNullLeaf(_)
NoNullLeaf(v) == CASE v.t = "n" -> FALSE
                   [] v.t \in {"o", "l"} -> \A i \in DOMAIN v.v : NoNullLeaf(v.v[i])
                   [] OTHER -> TRUE
KeysPresent(sgs, types, u) ==
  \A i \in DOMAIN sgs : \A a \in DOMAIN sgs[i].types : \A k \in DOMAIN sgs[i].types[a].keys :
     \A o \in DOMAIN u.objs :
        u.objs[o].type = sgs[i].types[a].name => NoNullLeaf(ProjD(Mono(types, u), sgs[i].types[a].keys[k].sel, o))
HasNonNullViolation(types, u, o) ==
  LET td == TypeOf(types, u.objs[o].type)
  IN \E i \in DOMAIN td.fields :
        /\ td.fields[i].req = <<>>
        /\ td.fields[i].type.w # <<>> /\ Head(td.fields[i].type.w) = "N"
        /\ FieldData(Mono(types, u), o, td.fields[i].name).t = "n"
RECURSIVE ProvidersSel(_, _, _), ProvidersOf(_, _, _)
ProvidersOf(M, sel, dv) ==
  CASE dv.t = "r" -> IF ObjExists(M, dv.v) THEN ProvidersSel(M, sel, dv.v) ELSE {}
    [] dv.t = "l" -> UNION {ProvidersOf(M, sel, dv.v[i]) : i \in DOMAIN dv.v}
    [] OTHER -> {}
ProvidersSel(M, sel, o) ==
  {o} \cup UNION {IF sel[i].sel # <<>> THEN ProvidersOf(M, sel[i].sel, FieldData(M, o, sel[i].name)) ELSE {} : i \in DOMAIN sel}
InputsClean(types, u) ==
  \A o \in DOMAIN u.objs :
     LET td == TypeOf(types, u.objs[o].type)
     IN \A i \in DOMAIN td.fields :
           td.fields[i].req # <<>> =>
              \A p \in ProvidersSel(Mono(types, u), td.fields[i].req, o) : ~HasNonNullViolation(types, u, p)
OwnersAgree(types, u) ==
  \A i \in DOMAIN u.over : u.over[i].o \in DOMAIN u.objs /\ u.over[i].v = FieldData(Mono(types, u), u.over[i].o, u.over[i].f)
Consistent(sgs, types, u) ==
  /\ WellTyped(types, u) /\ UniqueKeys(sgs, types, u) /\ KeysPresent(sgs, types, u) /\ InputsClean(types, u) /\ OwnersAgree(types, u)
=============================================================================
