------------------------------ MODULE FedLayout ------------------------------
(* Layout = the partition of a supergraph over subgraphs (C01).              *)
(*  - SubTypes(sg): the subgraph's OWN schema (its types + _entities/_Entity) *)
(*  - Resolvable(..): which fields a subgraph may be asked for, and where     *)
(*  - Composable(sgs): the assumptions under which a gateway must be able to  *)
(*    plan every valid operation (what real composition would accept)         *)
EXTENDS FedSchema

IsEntityDef(td) == td.kind = "OBJECT" /\ td.keys # <<>>
EntityNames(sg) == LET ts == SelectSeq(sg.types, IsEntityDef) IN Names(ts)
EntitiesField == FA("_entities", NN(Li(Ty("_Entity"))), "representations", NN(Li(NN(Ty("_Any")))))

\* the schema a subgraph exposes: own types, Query._entities, union _Entity
SubTypes(sg) ==
  LET ents == EntityNames(sg)
      base == sg.types
      withQ == IF HasName(base, "Query")
               THEN TLCEval([i \in DOMAIN base |-> IF base[i].name = "Query" THEN [base[i] EXCEPT !.fields = @ \o <<EntitiesField>>] ELSE base[i]])
               ELSE Append(base, Obj("Query", <<>>, <<>>, <<EntitiesField>>))
  IN IF ents = <<>> THEN base ELSE Append(withQ, Uni("_Entity", ents))

\* top-level field names of a field set
FSNames(sel) == {sel[i].name : i \in DOMAIN sel}
IsKeyField(td, fn) == \E i \in DOMAIN td.keys : fn \in FSNames(td.keys[i].sel)
InProv(prov, fn) == \E i \in DOMAIN prov : prov[i].name = fn
ProvSub(prov, fn) == IF InProv(prov, fn) THEN ByName(prov, fn).sel ELSE <<>>

\* May subgraph schema `types` be asked for field fn of type tn, at a position where `prov` is provided?
\* (defined there, and not @external unless it is part of a key or provided on this path)
Resolvable(types, tn, fn, prov) ==
  /\ HasField(types, tn, fn)
  /\ LET fd == FieldOf(types, tn, fn) IN ~fd.ext \/ InProv(prov, fn) \/ IsKeyField(TypeOf(types, tn), fn)

\* subgraphs (indices) that own field fn of type tn (non-external definition)
Owners(sgs, tn, fn) == {i \in DOMAIN sgs : HasField(sgs[i].types, tn, fn) /\ ~FieldOf(sgs[i].types, tn, fn).ext}
Definers(sgs, tn) == {i \in DOMAIN sgs : HasName(sgs[i].types, tn)}

\* ------------------------------------------------------------------ Composable
\* fields of tn obtainable once the subgraphs in V have been entered
Avail(sgs, tn, V) == UNION {{f \in FSNames(ByName(sgs[i].types, tn).fields) : i \in Owners(sgs, tn, f)} : i \in V}
CanEnter(sgs, tn, V, j) ==
  /\ j \in Definers(sgs, tn)
  /\ \E k \in DOMAIN ByName(sgs[j].types, tn).keys :
        LET key == ByName(sgs[j].types, tn).keys[k] IN key.res /\ FSNames(key.sel) \subseteq Avail(sgs, tn, V)
RECURSIVE Closure(_, _, _)
Closure(sgs, tn, V) ==
  LET more == {j \in DOMAIN sgs : j \notin V /\ CanEnter(sgs, tn, V, j)}
  IN IF more = {} THEN V ELSE Closure(sgs, tn, V \cup more)

SameShape(sgs) ==
  \A i, j \in DOMAIN sgs : \A a \in DOMAIN sgs[i].types : \A b \in DOMAIN sgs[j].types :
     LET x == sgs[i].types[a]
         y == sgs[j].types[b]
     IN x.name = y.name =>
          /\ x.kind = y.kind
          /\ \A p \in DOMAIN x.fields : \A q \in DOMAIN y.fields :
                x.fields[p].name = y.fields[q].name =>
                   x.fields[p].type = y.fields[q].type /\ x.fields[p].args = y.fields[q].args

\* every field of an entity is reachable from every subgraph in which an instance can show up
MergedFieldNames(sgs, tn) == UNION {FSNames(ByName(sgs[i].types, tn).fields) : i \in Definers(sgs, tn)}
IsEntityType(sgs, tn) == LET defs == DefsOf(sgs, tn) IN defs[1].kind = "OBJECT" /\ \E i \in DOMAIN defs : defs[i].keys # <<>>
EntityReachable(sgs) ==
  \A tn \in Range(AllTypeNames(sgs)) :
     IsEntityType(sgs, tn) =>
        \A a \in Definers(sgs, tn) :
           LET C == Closure(sgs, tn, {a})
           IN \A f \in MergedFieldNames(sgs, tn) : (Owners(sgs, tn, f) \cap C) # {}

\* @external fields are used by a key / @requires / @provides of the same subgraph; every field has an owner
RECURSIVE FSMentions(_, _)
FSMentions(sel, fn) == \E i \in DOMAIN sel : sel[i].name = fn \/ FSMentions(sel[i].sel, fn)
ExternalsUsed(sgs) ==
  \A i \in DOMAIN sgs : \A a \in DOMAIN sgs[i].types : \A p \in DOMAIN sgs[i].types[a].fields :
     LET td == sgs[i].types[a]
         fd == td.fields[p]
     IN /\ Owners(sgs, td.name, fd.name) # {}
        /\ fd.ext =>
             \/ IsKeyField(td, fd.name)
             \/ \E b \in DOMAIN sgs[i].types : \E q \in DOMAIN sgs[i].types[b].fields :
                   LET g == sgs[i].types[b].fields[q] IN FSMentions(g.req, fd.name) \/ FSMentions(g.prov, fd.name)

\* non-entity object types defined in several subgraphs (shared value types) have the same owned fields everywhere
ValueTypesAgree(sgs) ==
  \A tn \in Range(AllTypeNames(sgs)) :
     LET defs == DefsOf(sgs, tn)
     IN (defs[1].kind = "OBJECT" /\ tn \notin {"Query", "Mutation"} /\ \A i \in DOMAIN defs : defs[i].keys = <<>>) =>
          \A i, j \in DOMAIN defs : FSNames(defs[i].fields) = FSNames(defs[j].fields)

Composable(sgs) == SameShape(sgs) /\ ExternalsUsed(sgs) /\ EntityReachable(sgs) /\ ValueTypesAgree(sgs)
=============================================================================
