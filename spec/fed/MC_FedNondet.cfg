SPECIFICATION FedSpec
INVARIANT FedRefinesMonolith
CHECK_DEADLOCK TRUE
