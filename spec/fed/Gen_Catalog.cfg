INIT Init
NEXT Next
INVARIANT CatalogSane
CHECK_DEADLOCK FALSE
