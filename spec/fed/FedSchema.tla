------------------------------ MODULE FedSchema ------------------------------
(* Federation schemas as TLA+ values (C01).                                   *)
(*                                                                            *)
(* A *subgraph* is a sequence of type definitions carrying the federation     *)
(* directives (@key, @external, @requires, @provides); a *catalog entry* is a *)
(* sequence of subgraphs (= the layout: which subgraph defines which          *)
(* (type, field)) plus data universes.  The supergraph is DERIVED (Super).    *)
(*                                                                            *)
(* Every data value is a uniformly tagged record ([t |-> ..]) because TLC     *)
(* refuses to compare values of different shapes and its Json module cannot   *)
(* read null; the same form crosses the Go <-> TLC boundary.                  *)
(* TLCEval(..) around function constructors: TLC builds such functions lazily *)
(* and would re-evaluate the body at EVERY application.  Bound identifiers in *)
(* these modules must not collide with the VARIABLES of the modules that      *)
(* extend them (kv, kat, kdem, kcfg, ln, stack, ...): TLC decides by NAME      *)
(* whether a definition is constant-level, and only constant-level            *)
(* definitions (Catalog, Supers, Subs) are evaluated once and cached.         *)
EXTENDS Integers, Sequences, FiniteSets, TLC

\* ------------------------------------------------------------------ helpers
Range(s) == {s[i] : i \in DOMAIN s}
Has(s, x) == \E i \in DOMAIN s : s[i] = x
Idx(s, x) == CHOOSE i \in DOMAIN s : s[i] = x
RECURSIVE Flat(_)
Flat(ss) == IF ss = <<>> THEN <<>> ELSE Head(ss) \o Flat(Tail(ss))
RECURSIVE Dedup(_)
Dedup(s) == IF s = <<>> THEN <<>>
            ELSE LET front == Dedup(SubSeq(s, 1, Len(s) - 1))
                     last == s[Len(s)]
                 IN IF Has(front, last) THEN front ELSE Append(front, last)
Names(s) == [i \in DOMAIN s |-> s[i].name]
HasName(s, n) == \E i \in DOMAIN s : s[i].name = n
ByName(s, n) == s[CHOOSE i \in DOMAIN s : s[i].name = n]

\* ------------------------------------------------------------------ type references
\* [n |-> named type, w |-> wrappers outermost first, "N" = non-null, "L" = list]
Ty(n) == [n |-> n, w |-> <<>>]
NN(t) == [n |-> t.n, w |-> <<"N">> \o t.w]
Li(t) == [n |-> t.n, w |-> <<"L">> \o t.w]
ScalarNames == {"ID", "String", "Int", "Boolean", "_Any"}

\* ------------------------------------------------------------------ tagged values
Null == [t |-> "n"]
Absent == [t |-> "x"]
Str(s) == [t |-> "s", v |-> s]
Num(i) == [t |-> "i", v |-> i]
Bool(b) == [t |-> "b", v |-> b]
Lst(s) == [t |-> "l", v |-> s]
Ref(o) == [t |-> "r", v |-> o]                      \* reference to an object of the universe
ObjV(k, v) == [t |-> "o", k |-> k, v |-> v]         \* ordered object (response / variable value)
Var(n) == [t |-> "v", v |-> n]                      \* variable reference inside a document
EnumV(n) == [t |-> "e", v |-> n]                    \* enum literal inside a document (JSON form: the string)
\* a field whose value depends on ONE argument: m = <<[k |-> arg value, v |-> result]..>>, d = otherwise
Fn(arg, m, d) == [t |-> "fn", a |-> arg, m |-> m, d |-> d]
Case(k, v) == [k |-> k, v |-> v]
\* a root MUTATION field with an effect: adds its Int argument `arg` to the world's single counter and returns the
\* new value -- the order in which root mutation fields are executed (also across subgraphs) is visible in `data`
Ctr(arg) == [t |-> "ctr", a |-> arg]

\* ------------------------------------------------------------------ field sets (@key/@requires/@provides)
FS(n) == [name |-> n, sel |-> <<>>, args |-> <<>>]
FSN(n, sel) == [name |-> n, sel |-> sel, args |-> <<>>]
FSA(n, args) == [name |-> n, sel |-> <<>>, args |-> args]     \* a required leaf field WITH (literal) arguments

\* ------------------------------------------------------------------ definitions
F(name, type) == [name |-> name, type |-> type, args |-> <<>>, ext |-> FALSE, req |-> <<>>, prov |-> <<>>, inacc |-> FALSE]
\* (no EXCEPT in the constructors: TLC does not pre-evaluate and cache constant definitions that go through it)
FA(name, type, argn, argt) == [name |-> name, type |-> type, args |-> <<[name |-> argn, type |-> argt]>>, ext |-> FALSE, req |-> <<>>, prov |-> <<>>, inacc |-> FALSE]
Ext(f) == [name |-> f.name, type |-> f.type, args |-> f.args, ext |-> TRUE, req |-> f.req, prov |-> f.prov, inacc |-> f.inacc]
Req(f, sel) == [name |-> f.name, type |-> f.type, args |-> f.args, ext |-> f.ext, req |-> sel, prov |-> f.prov, inacc |-> f.inacc]
Prov(f, sel) == [name |-> f.name, type |-> f.type, args |-> f.args, ext |-> f.ext, req |-> f.req, prov |-> sel, inacc |-> f.inacc]
\* @inaccessible: the field exists in the subgraphs and for the planner (keys, @requires) but not in the client schema
Inacc(f) == [name |-> f.name, type |-> f.type, args |-> f.args, ext |-> f.ext, req |-> f.req, prov |-> f.prov, inacc |-> TRUE]
Key(sel) == [sel |-> sel, res |-> TRUE]
KeyNR(sel) == [sel |-> sel, res |-> FALSE]           \* @key(resolvable: false)

Obj(name, keys, impl, fields) == [name |-> name, kind |-> "OBJECT", keys |-> keys, impl |-> impl, members |-> <<>>, fields |-> fields]
Iface(name, fields) == [name |-> name, kind |-> "INTERFACE", keys |-> <<>>, impl |-> <<>>, members |-> <<>>, fields |-> fields]
Uni(name, members) == [name |-> name, kind |-> "UNION", keys |-> <<>>, impl |-> <<>>, members |-> members, fields |-> <<>>]
\* leaf / input kinds re-use the record shape: enum values in `members`, input fields in `fields`
Enum(name, values) == [name |-> name, kind |-> "ENUM", keys |-> <<>>, impl |-> <<>>, members |-> values, fields |-> <<>>]
Input(name, fields) == [name |-> name, kind |-> "INPUT", keys |-> <<>>, impl |-> <<>>, members |-> <<>>, fields |-> fields]
Scalar(name) == [name |-> name, kind |-> "SCALAR", keys |-> <<>>, impl |-> <<>>, members |-> <<>>, fields |-> <<>>]
SG(name, types) == [name |-> name, types |-> types]

\* data universe: objs = sequence of [id, type, f |-> [field |-> value]]; the root object has id "Q"
O(id, type, f) == [id |-> id, type |-> type, f |-> f]
\* over: per-subgraph deviations <<[sg, o, f, v]>> (subgraph sg answers v for field f of object o) -- only in the
\* deliberately INconsistent universes used as negative controls; every catalog universe has over = <<>>
UvOver(name, objs, over) ==
  [name |-> name, over |-> over,
   objs |-> TLCEval([o \in {objs[i].id : i \in DOMAIN objs} |->
               LET x == objs[CHOOSE i \in DOMAIN objs : objs[i].id = o] IN [type |-> x.type, f |-> x.f]])]
Uv(name, objs) == UvOver(name, objs, <<>>)
Dev(sg, o, f, v) == [sg |-> sg, o |-> o, f |-> f, v |-> v]

\* ------------------------------------------------------------------ documents
Field(name, alias, args, dirs, sel) ==
  [k |-> "f", name |-> name, alias |-> alias, on |-> "", args |-> args, dirs |-> dirs, sel |-> sel]
Inline(on, dirs, sel) ==
  [k |-> "i", name |-> "", alias |-> "", on |-> on, args |-> <<>>, dirs |-> dirs, sel |-> sel]
Spread(name, dirs) ==
  [k |-> "s", name |-> name, alias |-> "", on |-> "", args |-> <<>>, dirs |-> dirs, sel |-> <<>>]
Arg(n, v) == [name |-> n, val |-> v]
Dir(n, v) == [name |-> n, val |-> v]
VarDef(n, ty, def) == [name |-> n, type |-> ty, def |-> def]
Frag(n, on, sel) == [name |-> n, on |-> on, sel |-> sel]
Doc(sel, frags, vars) == [sel |-> sel, frags |-> frags, vars |-> vars, op |-> "query"]
MDoc(sel, frags, vars) == [sel |-> sel, frags |-> frags, vars |-> vars, op |-> "mutation"]
RKey(f) == IF f.alias = "" THEN f.name ELSE f.alias

\* ------------------------------------------------------------------ merged supergraph
TypeNamesOf(sg) == Names(sg.types)
AllTypeNames(sgs) == Dedup(Flat([i \in DOMAIN sgs |-> TypeNamesOf(sgs[i])]))
DefsOf(sgs, tn) == Flat([i \in DOMAIN sgs |-> IF HasName(sgs[i].types, tn) THEN <<ByName(sgs[i].types, tn)>> ELSE <<>>])
\* a field of the supergraph: the first non-external definition (keeps @requires, drops @external/@provides)
MergeFields(defs) ==
  LET all == Flat([i \in DOMAIN defs |-> defs[i].fields])
      names == Dedup(Names(all))
  IN TLCEval([i \in DOMAIN names |->
        LET cands == SelectSeq(all, LAMBDA f : f.name = names[i])
            own == SelectSeq(cands, LAMBDA f : ~f.ext)
            f == IF own = <<>> THEN cands[1] ELSE own[1]
        IN [f EXCEPT !.ext = FALSE, !.prov = <<>>, !.inacc = \E c \in DOMAIN cands : cands[c].inacc]])
MergeType(sgs, tn) ==
  LET defs == DefsOf(sgs, tn)
  IN [name |-> tn, kind |-> defs[1].kind,
      keys |-> Dedup(Flat([i \in DOMAIN defs |-> defs[i].keys])),
      impl |-> Dedup(Flat([i \in DOMAIN defs |-> defs[i].impl])),
      members |-> Dedup(Flat([i \in DOMAIN defs |-> defs[i].members])),
      fields |-> MergeFields(defs)]
SuperTypes(sgs) == LET tns == AllTypeNames(sgs) IN TLCEval([i \in DOMAIN tns |-> MergeType(sgs, tns[i])])

\* ------------------------------------------------------------------ schema queries (types = sequence of type definitions)
IsType(types, tn) == HasName(types, tn)
TypeOf(types, tn) == ByName(types, tn)
IsComposite(types, tn) == IsType(types, tn) /\ TypeOf(types, tn).kind \in {"OBJECT", "INTERFACE", "UNION"}
HasField(types, tn, fn) == IsType(types, tn) /\ HasName(TypeOf(types, tn).fields, fn)
FieldOf(types, tn, fn) == ByName(TypeOf(types, tn).fields, fn)
Possible(types, tn) ==
  IF ~IsType(types, tn) THEN {}
  ELSE LET td == TypeOf(types, tn)
       IN CASE td.kind = "OBJECT" -> {tn}
            [] td.kind = "UNION" -> Range(td.members)
            [] OTHER -> {types[i].name : i \in {j \in DOMAIN types : types[j].kind = "OBJECT" /\ Has(types[j].impl, tn)}}
=============================================================================
