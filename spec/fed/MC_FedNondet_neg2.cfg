SPECIFICATION Neg2Spec
INVARIANT FedRefinesMonolith
CHECK_DEADLOCK FALSE
