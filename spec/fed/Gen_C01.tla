------------------------------ MODULE Gen_C01 ------------------------------
(* Generator state machine for C01: every state is a partial operation over   *)
(* the supergraph of one catalog entry, every transition extends it (add a    *)
(* leaf field, open an object field / inline fragment / named fragment, close *)
(* it), a last step picks a variable assignment.  TLC's state graph IS the    *)
(* test suite: BFS = all valid operations within the bounds, -simulate =      *)
(* seeded random sample beyond them.  Each finished operation is printed with *)
(* the outcome the specification prescribes: Exec(Mono(supergraph, universe)) *)
(* for every universe of the entry.                                           *)
EXTENDS FedCatalog, Json, IOUtils

EnvNat(s) == CHOOSE i \in 0..500 : ToString(i) = s
E == EnvNat(IOEnv.C01_ENTRY)               \* catalog entry, 0 = all entries (chosen by the initial state)
MaxDepth == EnvNat(IOEnv.C01_MAXDEPTH)       \* nesting of object fields
MaxWidth == EnvNat(IOEnv.C01_MAXWIDTH)       \* selections per selection set
MaxSize == EnvNat(IOEnv.C01_MAXSIZE)         \* selections per operation
MaxDirs == EnvNat(IOEnv.C01_MAXDIRS)         \* @skip/@include per operation
MaxAlias == EnvNat(IOEnv.C01_MAXALIAS)       \* aliases per operation
MaxFrags == EnvNat(IOEnv.C01_MAXFRAGS)       \* inline / named fragments per operation
Ordered == EnvNat(IOEnv.C01_ORDERED) = 1     \* canonical field order only (BFS), any order (simulate)

VARIABLES gent, gop, stack, frs, cnt, phase, asg      \* gop: "query" | "mutation"
gvars == <<gent, gop, stack, frs, cnt, phase, asg>>
Ent == Catalog[gent]
Sup == Supers[gent]

\* ------------------------------------------------------------------ menus
Composite(tn) == IsComposite(Sup, tn)
\* the CLIENT schema: @inaccessible fields cannot be selected
FieldsOfType(tn) == IF TypeOf(Sup, tn).kind = "UNION" THEN <<>> ELSE SelectSeq(TypeOf(Sup, tn).fields, LAMBDA f : ~f.inacc)
\* positions: 0 = __typename, 1..n = fields, n+1.. = fragments
Coord(tn, fn) == tn \o "." \o fn
\* an interface field uses the menu of any implementing type that has one
ArgChoices(tn, fd) ==
  IF fd.args = <<>> THEN {<<>>}
  ELSE LET ms == SelectSeq(Ent.argmenu, LAMBDA m : \E t \in ({tn} \cup Possible(Sup, tn)) : m.name = Coord(t, fd.name))
       IN IF ms = <<>> THEN {} ELSE Range(ms[1].choices)
AliasPool == <<"a1", "a2", "a3">>
AliasChoices == {""} \cup (IF cnt.alias < MaxAlias THEN {AliasPool[cnt.alias + 1]} ELSE {})
DirChoices == {<<>>} \cup (IF cnt.dirs < MaxDirs THEN {<<Dir("skip", Var("s"))>>, <<Dir("include", Var("t"))>>} ELSE {})
\* type conditions that may be spread inside a selection set on tn
FragConds(tn) ==
  {c \in Range(Names(Sup)) : c \notin {"Query", "Mutation"} /\ Composite(c) /\ (Possible(Sup, c) \cap Possible(Sup, tn)) # {}
                              /\ (TypeOf(Sup, tn).kind # "OBJECT" \/ c = tn \/ TypeOf(Sup, c).kind # "OBJECT")}

Cur == stack[Len(stack)]
Root == [k |-> "root"]
Frame(ty, hdr) == [ty |-> ty, sels |-> <<>>, hdr |-> hdr, lastp |-> 0]
FieldDepth == Cardinality({i \in DOMAIN stack : stack[i].hdr.k = "f"})
FragDepth == Cardinality({i \in DOMAIN stack : stack[i].hdr.k \in {"i", "n"}})
KeyFree(key) == \A i \in DOMAIN Cur.sels : Cur.sels[i].k # "f" \/ RKey(Cur.sels[i]) # key
\* (the order of ROOT MUTATION fields is observable, so it is never canonicalised)
PosOK(p) == ~Ordered \/ Cur.ty = "Mutation" \/ p >= Cur.lastp
Room == Len(Cur.sels) < MaxWidth /\ cnt.size < MaxSize
Bump(alias, dirs, frag) ==
  [size |-> cnt.size + 1, alias |-> cnt.alias + (IF alias = "" THEN 0 ELSE 1),
   dirs |-> cnt.dirs + Len(dirs), frags |-> cnt.frags + frag]
Push(sel, p) == [stack EXCEPT ![Len(stack)].sels = Append(@, sel), ![Len(stack)].lastp = p]

\* ------------------------------------------------------------------ actions
AddTypename ==
  /\ phase = "build" /\ Room /\ PosOK(0) /\ KeyFree("__typename") /\ Cur.ty \notin {"Query", "Mutation"}
  /\ stack' = Push(Field("__typename", "", <<>>, <<>>, <<>>), 0)
  /\ cnt' = Bump("", <<>>, 0)
  /\ UNCHANGED <<gent, gop, frs, phase, asg>>

AddLeaf ==
  /\ phase = "build" /\ Room
  /\ \E p \in DOMAIN FieldsOfType(Cur.ty) :
       LET fd == FieldsOfType(Cur.ty)[p] IN
       /\ ~Composite(fd.type.n) /\ PosOK(p)
       /\ \E alias \in AliasChoices, args \in ArgChoices(Cur.ty, fd), dirs \in DirChoices :
            /\ KeyFree(IF alias = "" THEN fd.name ELSE alias)
            /\ stack' = Push(Field(fd.name, alias, args, dirs, <<>>), p)
            /\ cnt' = Bump(alias, dirs, 0)
  /\ UNCHANGED <<gent, gop, frs, phase, asg>>

\* an object field may be selected twice with the same response key (field merging)
OpenField ==
  /\ phase = "build" /\ Room /\ FieldDepth < MaxDepth
  /\ \E p \in DOMAIN FieldsOfType(Cur.ty) :
       LET fd == FieldsOfType(Cur.ty)[p] IN
       /\ Composite(fd.type.n) /\ PosOK(p)
       /\ \E alias \in AliasChoices, args \in ArgChoices(Cur.ty, fd), dirs \in DirChoices :
            /\ \A i \in DOMAIN Cur.sels :
                  (Cur.sels[i].k = "f" /\ RKey(Cur.sels[i]) = (IF alias = "" THEN fd.name ELSE alias))
                     => (Cur.sels[i].name = fd.name /\ Cur.sels[i].args = args)
            /\ stack' = Append(stack, Frame(fd.type.n, Field(fd.name, alias, args, dirs, <<>>)))
            /\ cnt' = Bump(alias, dirs, 0)
  /\ UNCHANGED <<gent, gop, frs, phase, asg>>

OpenFrag ==
  /\ phase = "build" /\ Room /\ cnt.frags < MaxFrags /\ FragDepth < 1 /\ Cur.ty \notin {"Query", "Mutation"}
  /\ PosOK(100)
  /\ \E on \in FragConds(Cur.ty), dirs \in DirChoices, named \in BOOLEAN :
       /\ stack' = Append(stack, Frame(on, [Inline(on, dirs, <<>>) EXCEPT !.k = IF named THEN "n" ELSE "i"]))
       /\ cnt' = Bump("", dirs, 1)
  /\ UNCHANGED <<gent, gop, frs, phase, asg>>

\* ------------------------------------------------------------------ validity (conservative FieldsInSetCanMerge)
RECURSIVE FlatScope(_, _, _)
FlatScope(fr, tn, sels) ==
  Flat([i \in DOMAIN sels |->
     LET s == sels[i] IN
     CASE s.k = "f" -> <<[pt |-> tn, f |-> s]>>
       [] s.k = "i" -> FlatScope(fr, IF s.on = "" THEN tn ELSE s.on, s.sel)
       [] OTHER -> FlatScope(fr, ByName(fr, s.name).on, ByName(fr, s.name).sel)])
FType(x) == IF x.f.name = "__typename" THEN NN(TStr) ELSE FieldOf(Sup, x.pt, x.f.name).type
RECURSIVE MergeOK(_, _)
MergeOK(fr, scope) ==
  /\ \A i, j \in DOMAIN scope :
        (i < j /\ RKey(scope[i].f) = RKey(scope[j].f)) =>
           /\ scope[i].f.name = scope[j].f.name
           /\ scope[i].f.args = scope[j].f.args
           /\ FType(scope[i]) = FType(scope[j])
  /\ \A i \in DOMAIN scope :
        (scope[i].f.sel # <<>> /\ \A j \in DOMAIN scope : j < i => RKey(scope[j].f) # RKey(scope[i].f)) =>
           MergeOK(fr, Flat([j \in DOMAIN scope |->
                       IF RKey(scope[j].f) = RKey(scope[i].f) THEN FlatScope(fr, FType(scope[j]).n, scope[j].f.sel) ELSE <<>>]))
ValidSel(fr, sels) == MergeOK(fr, FlatScope(fr, IF gop = "mutation" THEN "Mutation" ELSE "Query", sels))

Close ==
  /\ phase = "build" /\ Cur.sels # <<>>
  /\ IF Len(stack) = 1
     THEN /\ ValidSel(frs, Cur.sels)
          /\ phase' = "vars"
          /\ UNCHANGED <<gent, gop, stack, frs, cnt, asg>>
     ELSE LET h == Cur.hdr
              up == SubSeq(stack, 1, Len(stack) - 1)
              fname == "F" \o ToString(Len(frs) + 1)
              sel == CASE h.k = "n" -> Spread(fname, h.dirs)
                       [] OTHER -> [h EXCEPT !.sel = Cur.sels]
              p == IF h.k = "f" THEN (CHOOSE q \in DOMAIN FieldsOfType(up[Len(up)].ty) : FieldsOfType(up[Len(up)].ty)[q].name = h.name) ELSE 100
          IN /\ stack' = [up EXCEPT ![Len(up)].sels = Append(@, sel), ![Len(up)].lastp = p]
             /\ frs' = IF h.k = "n" THEN Append(frs, Frag(fname, h.on, Cur.sels)) ELSE frs
             /\ UNCHANGED <<gent, gop, cnt, phase, asg>>

\* ------------------------------------------------------------------ variables
RECURSIVE VarsOfVal(_)
VarsOfVal(v) ==                        \* variables inside a value (also nested in list / object literals)
  CASE v.t = "v" -> <<v.v>>
    [] v.t \in {"l", "o"} -> Flat([i \in DOMAIN v.v |-> VarsOfVal(v.v[i])])
    [] OTHER -> <<>>
RECURSIVE UsedIn(_)
UsedIn(sels) ==
  Flat([i \in DOMAIN sels |->
     LET s == sels[i]
     IN Flat([j \in DOMAIN s.args |-> VarsOfVal(s.args[j].val)]) \o Flat([j \in DOMAIN s.dirs |-> VarsOfVal(s.dirs[j].val)])
        \o UsedIn(s.sel)])
UsedVars == Dedup(UsedIn(stack[1].sels) \o Flat([i \in DOMAIN frs |-> UsedIn(frs[i].sel)]))
VarType(n) == IF n \in {"s", "t"} THEN NN(TBool) ELSE ByName(Ent.varmenu, n).type
VarVals(n) == IF n \in {"s", "t"} THEN {Bool(TRUE), Bool(FALSE)} ELSE Range(ByName(Ent.varmenu, n).vals)
\* a variable may also be OMITTED from the request; it then carries a default value in its definition (only variables of
\* built-in scalar types, so that the default is a plain literal)
DefaultOK(n) == VarType(n).n \in {"ID", "String", "Int", "Boolean"}
DefaultOf(n) == IF n \in {"s", "t"} THEN Bool(TRUE) ELSE ByName(Ent.varmenu, n).vals[1]
Omitted(n) == \E i \in DOMAIN asg : asg[i].name = n /\ asg[i].val = Absent
TheVars == SelectSeq(asg, LAMBDA b : b.val # Absent)
TheDoc == [Doc(stack[1].sels, frs, [i \in DOMAIN UsedVars |->
                 VarDef(UsedVars[i], VarType(UsedVars[i]), IF Omitted(UsedVars[i]) THEN DefaultOf(UsedVars[i]) ELSE Absent)])
           EXCEPT !.op = gop]
RECURSIVE Assignments(_)
Assignments(ns) ==
  IF ns = <<>> THEN {<<>>}
  ELSE {<<[name |-> Head(ns), val |-> v]>> \o rest :
           v \in VarVals(Head(ns)) \cup (IF DefaultOK(Head(ns)) THEN {Absent} ELSE {}), rest \in Assignments(Tail(ns))}
Assign ==
  /\ phase = "vars"
  /\ \E a \in Assignments(UsedVars) : asg' = a
  /\ phase' = "emit"
  /\ UNCHANGED <<gent, gop, stack, frs, cnt>>

GenInit ==
  /\ gent \in (IF E = 0 THEN DOMAIN Catalog ELSE {E})
  /\ gop \in (IF IsType(Supers[gent], "Mutation") THEN {"query", "mutation"} ELSE {"query"})
  /\ stack = <<Frame(IF gop = "mutation" THEN "Mutation" ELSE "Query", Root)>>
  /\ frs = <<>>
  /\ cnt = [size |-> 0, alias |-> 0, dirs |-> 0, frags |-> 0]
  /\ phase = "build"
  /\ asg = <<>>
GenNext == AddTypename \/ AddLeaf \/ OpenField \/ OpenFrag \/ Close \/ Assign
GenSpec == GenInit /\ [][GenNext]_gvars

\* printed once per finished (operation, assignment): the case and what the monolith answers in every universe
Emit ==
  IF phase = "emit"
  THEN PrintT(ToJson([entry |-> Ent.name, doc |-> TheDoc, vars |-> TheVars,
                      exp |-> [u \in DOMAIN Ent.universes |-> Exec(Mono(Sup, Ent.universes[u]), TheDoc, TheVars)]]))
  ELSE TRUE
GenConstraint == Emit
=============================================================================
