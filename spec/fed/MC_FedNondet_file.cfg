SPECIFICATION FileSpec
INVARIANT FedRefinesMonolith
CHECK_DEADLOCK TRUE
