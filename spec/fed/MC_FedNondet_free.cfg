SPECIFICATION FreeSpec
INVARIANT FedRefinesMonolith
CHECK_DEADLOCK TRUE
