SPECIFICATION NegSpec
INVARIANT FedRefinesMonolith
CHECK_DEADLOCK FALSE
