CONSTANTS
  MaxN = 3
  Family = "few"
SPECIFICATION Spec
INVARIANTS TypeOK Theorem ExactlyOnceStarted OrderIndependent SettleIsReachable
PROPERTIES Terminates
