CONSTANTS
  TransitiveSkip = TRUE
  FaultMaxN = 0
  MaxN = 3
  Family = "few"
SPECIFICATION Spec
INVARIANTS TypeOK Theorem ExactlyOnceStarted OrderIndependent SettleIsReachable
PROPERTIES Terminates
