CONSTANTS
  MaxN = 5
  Stratum = "paths"
  PathsMaxN = 5
SPECIFICATION GenSpec
CONSTRAINT GenConstraint
CHECK_DEADLOCK FALSE
