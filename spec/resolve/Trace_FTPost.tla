---------------------------- MODULE Trace_FTPost ----------------------------
(* C08 part (a), validation: every line of the log is one observation          *)
(* (case, mode, tree exported from the REAL postprocess.Processor).  One step  *)
(* consumes one line; FTPlan!Verdict - the same operators the model checker    *)
(* and the generator use - decides whether the real tree is well-formed for    *)
(* the case.  Rejected lines are printed (all of them, not only the first).    *)
EXTENDS FTPlan, Json, TLCExt, IOUtils
TraceLog == ndJsonDeserialize(IOEnv.TRACE)
VARIABLE l

\* sets travel as JSON arrays
CaseOf(o) == [n |-> o.c.n, deps |-> [f \in 1..o.c.n |-> Range(o.c.deps[f])],
              ds |-> o.c.ds, ent |-> o.c.ent, kind |-> o.c.kind, cls |-> o.c.cls]
\* a plan of the real planner + post-processor (federated engine, cmd/ftfed -plan): fetch ids may have gaps
\* (de-duplicated fetches), deps are the real DependsOnFetchIDs indexed by id
RealVerdict(o) ==
  LET ids == Members(o.tree) D == [f \in 1..Len(o.deps) |-> Range(o.deps[f])] IN
  IF ~ShapeOK(o.tree) THEN "shape"
  ELSE IF Len(MemberSeq(o.tree)) # Cardinality(ids) \/ ~(ids \subseteq 1..Len(o.deps)) THEN "lost-or-duplicated-fetch"
  ELSE IF ~DepsOrdered(o.tree, ids, D) THEN "dependency-not-ordered"
  ELSE "ok"
VerdictOf(o) == IF o.real THEN RealVerdict(o)
                ELSE Verdict(CaseOf(o), [dedup |-> o.mode.dedup, multi |-> o.mode.multi], o.tree)

TraceInit == l = 1 /\ TLCSet(1, 0)
TraceNext == l <= Len(TraceLog) /\ l' = l + 1
TraceSpec == TraceInit /\ [][TraceNext]_l

\* evaluated once per line (the state l = k+1 stands for "line k consumed")
Judge ==
  IF l = 1 THEN TRUE
  ELSE LET v == VerdictOf(TraceLog[l - 1]) IN
       IF v = "ok" THEN TRUE
       ELSE /\ PrintT(ToJson([line |-> l - 1, id |-> TraceLog[l - 1].id, verdict |-> v]))
            /\ TLCSet(1, TLCGet(1) + 1)
AllAccepted == TLCGet(1) = 0
=============================================================================
