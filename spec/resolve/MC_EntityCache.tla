--------------------------- MODULE MC_EntityCache ---------------------------
(* Model-checking instance of EntityCache: 2 entity types x 2 selections x 3   *)
(* entities, requests that overlap in entities but differ in selection or in   *)
(* representation set (partial hits), a 13-element header menu.                *)
EXTENDS EntityCache, IOUtils

S(tg, sel, batch) == [tg |-> tg, sel |-> sel, batch |-> batch]
R(steps) == [q |-> "", steps |-> steps]
MC_Menu == <<
  R(<<S("P", "a", {1, 2})>>),
  R(<<S("P", "b", {1, 2})>>),
  R(<<S("P", "a", {1})>>),
  R(<<S("P", "a", {2, 3})>>),
  R(<<S("P", "a", {1, 2, 3})>>),
  R(<<S("U", "a", {1}), S("P", "a", {1, 2})>>),
  R(<<S("P", "b", {1, 3}), S("U", "a", {1, 2})>>)
>>
MC_MenuSmall == <<
  R(<<S("P", "a", {1, 2})>>),
  R(<<S("P", "b", {1, 2})>>),
  R(<<S("P", "a", {2, 3})>>),
  R(<<S("U", "a", {1}), S("P", "a", {1, 2, 3})>>)
>>

H(dirs) == [dirs |-> dirs, bad |-> FALSE]
pub == Dir("public", NoArg)
MC_Headers == <<
  H(<<pub, Dir("max-age", 2)>>),
  H(<<pub>>),
  H(<<pub, Dir("s-maxage", 1), Dir("max-age", 3)>>),
  H(<<Dir("max-age", 3), pub, Dir("s-maxage", 1)>>),
  H(<<Dir("max-age", 2)>>),
  H(<<pub, Dir("no-store", NoArg)>>),
  H(<<pub, Dir("private", NoArg), Dir("max-age", 2)>>),
  H(<<Dir("no-cache", NoArg), pub>>),
  H(<<>>),
  H(<<pub, Dir("max-age", 0)>>),
  H(<<pub, Dir("max-age", 1), Dir("max-age", 3)>>),
  [dirs |-> <<pub, Dir("max-age", 3)>>, bad |-> TRUE],
  H(<<pub, Dir("must-revalidate", NoArg), Dir("foo", NoArg), Dir("max-age", 1)>>),
  H(<<pub, Dir("s-maxage", 0), Dir("max-age", 3)>>)
>>
\* negative sanity runs take the seeded model bug from the environment
MC_BugFromEnv == IOEnv.C16_BUG
MC_Outcomes == {"clean", "errs", "s500", "s404", "s300", "null1", "dead"}
=============================================================================
