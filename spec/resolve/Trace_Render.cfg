SPECIFICATION TraceSpec
CONSTRAINT HighWater
INVARIANTS WellFormedInv TypeSafeInv KeysInv ProjectionInv NullPropInv ReportedInv
POSTCONDITION TraceAccepted
CHECK_DEADLOCK FALSE
