CONSTANTS
  MaxP = 3
SPECIFICATION Spec
CONSTRAINT Emit
CHECK_DEADLOCK FALSE
