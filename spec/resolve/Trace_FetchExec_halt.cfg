SPECIFICATION TraceSpec
CONSTRAINT HighWater
INVARIANTS NoFabrication SameOperation Independent SkipJustified SkipHonoured ErrorReportedPerFetch DepsSettled ResponseWellFormed ErrorsNonEmpty Isolated
POSTCONDITION TraceAccepted
CHECK_DEADLOCK FALSE
