SPECIFICATION TraceSpec
CONSTRAINT HighWater
INVARIANTS NoFabrication SameOperation Independent SkipJustified SkipHonoured ErrorReportedPerFetch DepsSettled ResponseWellFormed ErrorsNonEmpty Isolated RepeatClean DeniedNotSent ErrPathsPass ErrPathsNames ErrPathsExact
POSTCONDITION TraceAccepted
CHECK_DEADLOCK FALSE
