----------------------------- MODULE Gen_FTDag -----------------------------
(* Generator for C08 part (a): EVERY labelled dependency DAG on n <= MaxN      *)
(* fetches (edges are added one at a time, so every assignment of ids to the   *)
(* nodes of every DAG shape is a distinct state), decorated according to the   *)
(* stratum with data sources / entity flags (createMultiFetch), response-path  *)
(* patterns (addMissingNestedDependencies) or classes of identical requests    *)
(* (deduplicateSingleFetches).  One emitted state = one input of the real      *)
(* postprocess.Processor.                                                      *)
EXTENDS FTPlan, Json
CONSTANTS MaxN,        \* DAGs on n <= MaxN fetches
          Stratum,     \* "plain" | "multi" | "paths" | "dedup" | "all" (every stratum in one run)
          PathsMaxN,   \* the paths stratum multiplies by 6^n: its own bound
          DeferMaxN    \* the defer stratum multiplies by 2 * 3^n: its own bound
VARIABLES n, deps, phase, ds, ent, kind, cls, stratum,
          did,         \* did[f] = defer group of fetch f (0 = primary response, groups 1 and 2)
          dpar         \* parent of defer group 2 (0 = top level, 1 = nested in group 1); group 1 is top level
gvars == <<n, deps, phase, ds, ent, kind, cls, stratum, did, dpar>>

Case == [n |-> n, deps |-> deps, ds |-> ds, ent |-> ent, kind |-> kind, cls |-> cls, s |-> stratum, did |-> did, dpar |-> dpar]
Ident == [f \in 1..n |-> f]

GenInit ==
  /\ n \in 1..MaxN
  /\ deps = [f \in 1..n |-> {}]
  /\ phase = "dag" /\ stratum = "none" /\ did = [f \in 1..n |-> 0] /\ dpar = 0
  /\ ds = [f \in 1..n |-> 1] /\ ent = [f \in 1..n |-> FALSE] /\ kind = [f \in 1..n |-> 1] /\ cls = [f \in 1..n |-> f]

AddEdge == \E f, d \in 1..n :
  /\ phase = "dag" /\ f # d /\ d \notin deps[f]
  /\ f \notin Closure(n, deps, d) \cup {d}
  /\ deps' = [deps EXCEPT ![f] = @ \cup {d}]
  /\ UNCHANGED <<n, phase, ds, ent, kind, cls, stratum, did, dpar>>

Strata == IF Stratum = "all" THEN {"plain", "multi", "paths", "dedup", "defer"} ELSE {Stratum}
Decorate == \E sx \in Strata :
  /\ phase = "dag" /\ phase' = "out" /\ stratum' = sx
  /\ (sx = "paths" => n <= PathsMaxN) /\ (sx = "defer" => n <= DeferMaxN)
  /\ UNCHANGED <<n, deps>>
  /\ (sx # "defer" => UNCHANGED <<did, dpar>>)
  /\ CASE sx = "plain" -> UNCHANGED <<ds, ent, kind, cls>>
       [] sx = "defer" -> /\ did' \in [1..n -> 0..2] /\ dpar' \in 0..1
                          /\ UNCHANGED <<ds, ent, kind, cls>>
       [] sx = "multi" -> /\ ds' \in [1..n -> 1..2]
                               /\ \E roots \in BOOLEAN : ent' = [f \in 1..n |-> roots \/ deps[f] # {}]
                               /\ UNCHANGED <<kind, cls>>
       [] sx = "paths" -> /\ kind' \in [1..n -> 1..NKinds]
                               /\ UNCHANGED <<ds, ent, cls>>
       [] sx = "dedup" -> /\ cls' \in [1..n -> 1..n]
                               /\ cls' # Ident
                               /\ UNCHANGED <<ds, ent, kind>>

GenNext == AddEdge \/ Decorate
GenSpec == GenInit /\ [][GenNext]_gvars

\* decorated states that are not plans are pruned (identical requests must agree; the nested
\* dependencies implied by the paths must not contradict the declared ones)
\* @defer placements the planner can emit: a deferred fetch reads only from the primary response, its own group and the
\* groups its group is nested in; group 1 has a fetch of its own (the planner re-parents defers below an empty one)
GroupAnc(g) == IF g = 0 THEN {0} ELSE IF g = 1 THEN {0, 1} ELSE {0, 2} \cup (IF dpar = 1 THEN {1} ELSE {})
DeferOK == /\ \E f \in 1..n : did[f] = 1
           /\ (dpar = 1 => \E f \in 1..n : did[f] = 2)
           /\ \A f \in 1..n : \A d \in deps[f] : did[d] \in GroupAnc(did[f])
Plausible == phase = "out" => /\ ClsOK(Case)
                              /\ (stratum = "defer" => DeferOK)
                              /\ Acyclic(n, AugDeps(Case))
                              /\ (stratum = "paths" => \E f \in 1..n : Nested(Case, f) # {})
Emit == IF phase = "out" /\ Plausible THEN PrintT(ToJson(Case)) ELSE TRUE
GenConstraint == Plausible /\ Emit
=============================================================================
