----------------------------- MODULE Gen_FTDag -----------------------------
(* Generator for C08 part (a): EVERY labelled dependency DAG on n <= MaxN      *)
(* fetches (edges are added one at a time, so every assignment of ids to the   *)
(* nodes of every DAG shape is a distinct state), decorated according to the   *)
(* stratum with data sources / entity flags (createMultiFetch), response-path  *)
(* patterns (addMissingNestedDependencies) or classes of identical requests    *)
(* (deduplicateSingleFetches).  One emitted state = one input of the real      *)
(* postprocess.Processor.                                                      *)
EXTENDS FTPlan, Json
CONSTANTS MaxN,        \* DAGs on n <= MaxN fetches
          Stratum,     \* "plain" | "multi" | "paths" | "dedup" | "all" (every stratum in one run)
          PathsMaxN    \* the paths stratum multiplies by 6^n: its own bound
VARIABLES n, deps, phase, ds, ent, kind, cls, stratum
gvars == <<n, deps, phase, ds, ent, kind, cls, stratum>>

Case == [n |-> n, deps |-> deps, ds |-> ds, ent |-> ent, kind |-> kind, cls |-> cls, s |-> stratum]
Ident == [f \in 1..n |-> f]

GenInit ==
  /\ n \in 1..MaxN
  /\ deps = [f \in 1..n |-> {}]
  /\ phase = "dag" /\ stratum = "none"
  /\ ds = [f \in 1..n |-> 1] /\ ent = [f \in 1..n |-> FALSE] /\ kind = [f \in 1..n |-> 1] /\ cls = [f \in 1..n |-> f]

AddEdge == \E f, d \in 1..n :
  /\ phase = "dag" /\ f # d /\ d \notin deps[f]
  /\ f \notin Closure(n, deps, d) \cup {d}
  /\ deps' = [deps EXCEPT ![f] = @ \cup {d}]
  /\ UNCHANGED <<n, phase, ds, ent, kind, cls, stratum>>

Strata == IF Stratum = "all" THEN {"plain", "multi", "paths", "dedup"} ELSE {Stratum}
Decorate == \E sx \in Strata :
  /\ phase = "dag" /\ phase' = "out" /\ stratum' = sx
  /\ (sx = "paths" => n <= PathsMaxN)
  /\ UNCHANGED <<n, deps>>
  /\ CASE sx = "plain" -> UNCHANGED <<ds, ent, kind, cls>>
       [] sx = "multi" -> /\ ds' \in [1..n -> 1..2]
                               /\ \E roots \in BOOLEAN : ent' = [f \in 1..n |-> roots \/ deps[f] # {}]
                               /\ UNCHANGED <<kind, cls>>
       [] sx = "paths" -> /\ kind' \in [1..n -> 1..NKinds]
                               /\ UNCHANGED <<ds, ent, cls>>
       [] sx = "dedup" -> /\ cls' \in [1..n -> 1..n]
                               /\ cls' # Ident
                               /\ UNCHANGED <<ds, ent, kind>>

GenNext == AddEdge \/ Decorate
GenSpec == GenInit /\ [][GenNext]_gvars

\* decorated states that are not plans are pruned (identical requests must agree; the nested
\* dependencies implied by the paths must not contradict the declared ones)
Plausible == phase = "out" => /\ ClsOK(Case)
                              /\ Acyclic(n, AugDeps(Case))
                              /\ (stratum = "paths" => \E f \in 1..n : Nested(Case, f) # {})
Emit == IF phase = "out" /\ Plausible THEN PrintT(ToJson(Case)) ELSE TRUE
GenConstraint == Plausible /\ Emit
=============================================================================
