CONSTANTS
  Faithful = TRUE
  MaxDeny = 1
SPECIFICATION Spec
INVARIANTS Neg_NeverPropagates
CHECK_DEADLOCK FALSE
