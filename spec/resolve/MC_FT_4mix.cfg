CONSTANTS
  TransitiveSkip = TRUE
  FaultMaxN = 3
  MaxN = 4
  Family = "mix"
SPECIFICATION Spec
INVARIANTS TypeOK Theorem ExactlyOnceStarted OrderIndependent SettleIsReachable
PROPERTIES Terminates
