CONSTANTS
  MaxN = 4
  Family = "mix"
SPECIFICATION Spec
INVARIANTS TypeOK Theorem ExactlyOnceStarted OrderIndependent SettleIsReachable
PROPERTIES Terminates
