CONSTANTS
  MaxN = 4
  MaxDeps = 1
  Classes = {"ok", "Transport", "ErrorsNoData", "PartialData"}
  MaxFaults = 2
  Ents = {1}
SPECIFICATION MCSpec
INVARIANTS TypeOK InstWellFormed NoFabrication Independent SkipJustified ErrorReportedPerFetch ErrorReported DepsSettled
PROPERTIES Terminates
