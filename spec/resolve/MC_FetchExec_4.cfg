CONSTANTS
  MaxN = 4
  MaxDeps = 1
  Classes = {"ok", "Transport", "ErrorsNoData", "RateLimited"}
  MaxFaults = 2
  Ents = {1}
SPECIFICATION MCSpec
INVARIANTS TypeOK InstWellFormed NoFabrication Independent SkipJustified ErrorReportedPerFetch ErrorReported DepsSettled DeniedNotSent
PROPERTIES Terminates
