CONSTANTS
  TransitiveSkip = FALSE
  FaultMaxN = 3
  MaxN = 3
  Family = "maxred"
SPECIFICATION Spec
INVARIANTS TypeOK Theorem
