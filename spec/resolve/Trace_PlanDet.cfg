SPECIFICATION TraceSpec
CONSTRAINT HighWater
INVARIANTS PlanDeterministic RequestsDeterministic ResponseIndependentOfOptions
POSTCONDITION TraceAccepted
CHECK_DEADLOCK FALSE
