CONSTANTS
  Probes = FALSE
SPECIFICATION GenSpec
CONSTRAINT GenConstraint
INVARIANT GenOK
CHECK_DEADLOCK FALSE
