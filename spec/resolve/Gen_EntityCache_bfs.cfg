CONSTANTS
  Menu <- Gen_Menu
  Headers <- Gen_Headers
  Outcomes = {"clean", "errs", "s500", "s404", "s300", "null1", "dead"}
  HeaderDraw <- Gen_HeaderDrawSmall
  OutcomeDraw <- Gen_OutcomeDrawSmall
  MenuDraw <- Gen_MenuDrawSmall
  TickDraw <- Gen_TickDrawSmall
  GetDraw <- Gen_GetDrawSmall
  SetDraw <- Gen_SetDrawSmall
  DefaultTTL = 2
  MaxReq = 2
  MaxTick = 2
  GetFaults = TRUE
  SetFaults = "three"
  MaxEvict = 0
  TTLSlack = FALSE
  Bug = "none"
SPECIFICATION GenSpec
CONSTRAINT GenConstraint
CHECK_DEADLOCK FALSE
