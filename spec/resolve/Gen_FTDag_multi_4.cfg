CONSTANTS
  MaxN = 4
  Stratum = "multi"
  PathsMaxN = 4
  DeferMaxN = 4
SPECIFICATION GenSpec
CONSTRAINT GenConstraint
CHECK_DEADLOCK FALSE
