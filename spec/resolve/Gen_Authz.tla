----------------------------- MODULE Gen_Authz -----------------------------
(* Generator of C14 cases.                                                    *)
(*  PHASE=menu : prints the menu (id, text) -- the driver computes the shape  *)
(*               and the coordinate families every operation touches.         *)
(*  PHASE=cases: for every operation of OPS (id, kind, defer, fams) every      *)
(*               protected set P of at most MaxP touched families, every       *)
(*               decision function d : P -> {allow, deny} (as its deny set),   *)
(*               both authorizer modes and every delivery the operation has.   *)
(*               Split cases: for every coordinate c of a runtime object type  *)
(*               whose family F has more coordinates (interface field ...):    *)
(*               F protected, ONLY c denied (the interface coordinate and the  *)
(*               other implementers stay allowed), alone or together with one  *)
(*               other family G that is allowed or denied.                     *)
(*  PHASE=synth: hand-built plans at the resolve level (the planner never puts *)
(*               two mutation root fields into one request): operation kind x  *)
(*               layout (root fields per request) x first field non-null x P x *)
(*               d x mode.                                                     *)
(* One initial state per case; BFS prints each exactly once.                  *)
EXTENDS Integers, Sequences, FiniteSets, TLC, Json, IOUtils, AuthzMenu
CONSTANT MaxP
VARIABLES op, P, den, mode, delivery, split
vars == <<op, P, den, mode, delivery, split>>
MenuPhase == IOEnv.PHASE = "menu"
SynthPhase == IOEnv.PHASE = "synth"
Ops == IF MenuPhase \/ SynthPhase THEN <<>> ELSE ndJsonDeserialize(IOEnv.OPS)
Layouts == {<<2>>, <<3>>, <<1, 2>>, <<2, 1>>}
RECURSIVE SumSeq(_)
SumSeq(s) == IF s = <<>> THEN 0 ELSE Head(s) + SumSeq(Tail(s))
SeqRange(s) == {s[i] : i \in DOMAIN s}
Init ==
  IF MenuPhase
  THEN /\ op \in DOMAIN Menu
       /\ P = {} /\ den = {} /\ mode = "menu" /\ delivery = "menu" /\ split = ""
  ELSE IF SynthPhase
  THEN \* op = [kind, layout, nnfirst]; P, den = sets of root field numbers
       /\ op \in [kind : {"query", "mutation", "subscription"}, layout : Layouts, nnfirst : BOOLEAN]
       /\ P \in SUBSET (1..SumSeq(op.layout))
       /\ den \in SUBSET P
       /\ mode \in {"post", "batch"}
       /\ delivery = "sync" /\ split = ""
  ELSE /\ op \in DOMAIN Ops
       /\ mode \in {"post", "batch"}
       /\ delivery \in (IF Ops[op].defer THEN {"sync", "defer"} ELSE {"sync"})
       /\ \/ /\ split = ""
             /\ P \in {p \in SUBSET SeqRange(Ops[op].fams) : Cardinality(p) <= MaxP}
             /\ den \in SUBSET P
          \/ \E i \in DOMAIN Ops[op].splits :
                LET s == Ops[op].splits[i] IN
                /\ split = s.c
                /\ \/ P = {s.fam} /\ den = {s.c}
                   \/ \E G \in SeqRange(Ops[op].fams) \ {s.fam} :
                        P = {s.fam, G} /\ den \in {{s.c}, {s.c, G}}
Spec == Init /\ [][FALSE]_vars
Emit ==
  IF MenuPhase
  THEN PrintT(ToJson(Menu[op]))
  ELSE IF SynthPhase
  THEN PrintT(ToJson([synth |-> op, P |-> P, deny |-> den, mode |-> mode]))
  ELSE PrintT(ToJson([op |-> Ops[op].id, P |-> P, deny |-> den, mode |-> mode, delivery |-> delivery, split |-> split]))
=============================================================================
