----------------------------- MODULE Gen_Authz -----------------------------
(* Generator of C14 cases.                                                    *)
(*  PHASE=menu : prints the menu (id, text) -- the driver computes the shape  *)
(*               and the coordinate families every operation touches.         *)
(*  PHASE=cases: for every operation of OPS (id, kind, defer, fams) every      *)
(*               protected set P of at most MaxP touched families, every       *)
(*               decision function d : P -> {allow, deny} (as its deny set),   *)
(*               both authorizer modes and every delivery the operation has.   *)
(* One initial state per case; BFS prints each exactly once.                  *)
EXTENDS Integers, Sequences, FiniteSets, TLC, Json, IOUtils, AuthzMenu
CONSTANT MaxP
VARIABLES op, P, den, mode, delivery
vars == <<op, P, den, mode, delivery>>
MenuPhase == IOEnv.PHASE = "menu"
Ops == IF MenuPhase THEN <<>> ELSE ndJsonDeserialize(IOEnv.OPS)
SeqRange(s) == {s[i] : i \in DOMAIN s}
Init ==
  IF MenuPhase
  THEN /\ op \in DOMAIN Menu
       /\ P = {} /\ den = {} /\ mode = "menu" /\ delivery = "menu"
  ELSE /\ op \in DOMAIN Ops
       /\ P \in {p \in SUBSET SeqRange(Ops[op].fams) : Cardinality(p) <= MaxP}
       /\ den \in SUBSET P
       /\ mode \in {"post", "batch"}
       /\ delivery \in (IF Ops[op].defer THEN {"sync", "defer"} ELSE {"sync"})
Spec == Init /\ [][FALSE]_vars
Emit ==
  IF MenuPhase
  THEN PrintT(ToJson(Menu[op]))
  ELSE PrintT(ToJson([op |-> Ops[op].id, P |-> P, deny |-> den, mode |-> mode, delivery |-> delivery]))
=============================================================================
