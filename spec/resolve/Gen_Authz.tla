----------------------------- MODULE Gen_Authz -----------------------------
(* Generator of C14 cases.                                                    *)
(*  PHASE=menu : prints the menu (id, text) -- the driver computes the shape  *)
(*               and the coordinate families every operation touches.         *)
(*  PHASE=cases: for every operation of OPS (id, kind, defer, fams) every      *)
(*               protected set P of at most MaxP touched families, every       *)
(*               decision function d : P -> {allow, deny} (as its deny set),   *)
(*               both authorizer modes and every delivery the operation has.   *)
(*               Split cases: for every coordinate c of a runtime object type  *)
(*               whose family F has more coordinates (interface field ...):    *)
(*               F protected, ONLY c denied (the interface coordinate and the  *)
(*               other implementers stay allowed), alone or together with one  *)
(*               other family G that is allowed or denied.                     *)
(*  PHASE=synth: hand-built plans at the resolve level (the planner never puts *)
(*               two mutation root fields into one request): operation kind x  *)
(*               layout (root fields per request) x first field non-null x P x *)
(*               d x mode.                                                     *)
(*  PHASE=subs : hand-built subscription plans at the resolve level (trigger +  *)
(*               root object from the event + a nested request per update):    *)
(*               root non-null? x P (<= MaxP of the 6 families) x d x mode.    *)
(*  PHASE=collide: hand-built plans `{ o1 { a } o2 { b } }` whose two protected *)
(*               coordinates (data source id, type, field) concatenate to the  *)
(*               same string without a separator (User.sso / Users.so, A.bc /  *)
(*               Ab.c, data source "d" + type "sT" / "ds" + "T"): either order, *)
(*               every protected subset, every decision pair, every mode.      *)
(* Round 3: mode "both" (BatchAuthorizer and Authorizer set together); partial  *)
(* = only the coordinate c of a family carries the rule (and is denied); fail   *)
(* = the authorizer returns an ERROR for one protected family (fail closed).    *)
(* One initial state per case; BFS prints each exactly once.                  *)
EXTENDS Integers, Sequences, FiniteSets, TLC, Json, IOUtils, AuthzMenu
CONSTANT MaxP
VARIABLES op, P, den, mode, delivery, split, partial, fail
vars == <<op, P, den, mode, delivery, split, partial, fail>>
MenuPhase == IOEnv.PHASE = "menu"
SynthPhase == IOEnv.PHASE = "synth"
SubsPhase == IOEnv.PHASE = "subs"
CollidePhase == IOEnv.PHASE = "collide"
Ops == IF MenuPhase \/ SynthPhase \/ SubsPhase \/ CollidePhase THEN <<>> ELSE ndJsonDeserialize(IOEnv.OPS)
CC(ds, ty, f) == [ds |-> ds, type |-> ty, field |-> f]
Collisions == << <<CC("ds1", "User", "sso"), CC("ds1", "Users", "so")>>,
                 <<CC("ds1", "A", "bc"), CC("ds1", "Ab", "c")>>,
                 <<CC("d", "sT", "x"), CC("ds", "T", "x")>>,
                 <<CC("ds1", "Ab", "cd"), CC("ds1", "A", "bcd")>>,
                 <<CC("ds1", "Tenant", "id"), CC("ds1", "Tenanti", "d")>> >>
Layouts == {<<2>>, <<3>>, <<1, 2>>, <<2, 1>>}
SubFams == {"Subscription.ev", "Event.id", "Event.secret", "Event.detail", "Detail.text", "Detail.note"}
Modes == {"post", "batch", "both"}
RECURSIVE SumSeq(_)
SumSeq(s) == IF s = <<>> THEN 0 ELSE Head(s) + SumSeq(Tail(s))
SeqRange(s) == {s[i] : i \in DOMAIN s}
Plain == split = "" /\ partial = FALSE /\ fail = ""
Init ==
  IF MenuPhase
  THEN /\ op \in DOMAIN Menu
       /\ P = {} /\ den = {} /\ mode = "menu" /\ delivery = "menu" /\ Plain
  ELSE IF SynthPhase
  THEN \* op = [kind, layout, nnfirst]; P, den = sets of root field numbers
       /\ op \in [kind : {"query", "mutation", "subscription"}, layout : Layouts, nnfirst : BOOLEAN]
       /\ P \in SUBSET (1..SumSeq(op.layout))
       /\ den \in SUBSET P
       /\ mode \in Modes
       /\ delivery = "sync" /\ Plain
  ELSE IF CollidePhase
  THEN \* op = [pair, swap]; P, den = subsets of {1, 2} (the two coordinates of the pair)
       /\ op \in [pair : DOMAIN Collisions, swap : BOOLEAN]
       /\ P \in SUBSET {1, 2} \ {{}}
       /\ den \in SUBSET P
       /\ mode \in Modes
       /\ delivery = "sync" /\ Plain
  ELSE IF SubsPhase
  THEN /\ op \in [rootnn : BOOLEAN]
       /\ P \in {p \in SUBSET SubFams : Cardinality(p) <= MaxP}
       /\ den \in SUBSET P
       /\ mode \in Modes
       /\ delivery = "sync" /\ split = "" /\ partial = FALSE
       /\ fail \in {""} \cup (IF Cardinality(P) <= 2 THEN P \ den ELSE {})
  ELSE /\ op \in DOMAIN Ops
       /\ delivery \in (IF Ops[op].defer THEN {"sync", "defer"} ELSE {"sync"})
       /\ \/ /\ Plain
             /\ mode \in Modes
             /\ P \in {p \in SUBSET SeqRange(Ops[op].fams) : Cardinality(p) <= MaxP}
             /\ den \in SUBSET P
          \/ \* the authorizer fails for one protected family that is not otherwise denied
             /\ split = "" /\ partial = FALSE
             /\ mode \in Modes
             /\ P \in {p \in SUBSET SeqRange(Ops[op].fams) : Cardinality(p) \in 1..2}
             /\ den \in SUBSET P
             /\ fail \in P \ den
          \/ \E i \in DOMAIN Ops[op].splits :
                LET s == Ops[op].splits[i] IN
                /\ split = s.c /\ fail = ""
                /\ mode \in {"post", "batch"}
                /\ \/ partial = FALSE /\ P = {s.fam} /\ den = {s.c}
                   \/ partial = FALSE /\ \E G \in SeqRange(Ops[op].fams) \ {s.fam} :
                        P = {s.fam, G} /\ den \in {{s.c}, {s.c, G}}
                   \/ \* only c itself carries the rule
                      partial = TRUE /\ P = {s.c} /\ den = {s.c}
Spec == Init /\ [][FALSE]_vars
Emit ==
  IF MenuPhase
  THEN PrintT(ToJson(Menu[op]))
  ELSE IF SynthPhase
  THEN PrintT(ToJson([synth |-> op, P |-> P, deny |-> den, mode |-> mode]))
  ELSE IF CollidePhase
  THEN PrintT(ToJson([collide |-> [pair |-> op.pair, swap |-> op.swap, coords |-> Collisions[op.pair]], P |-> P, deny |-> den, mode |-> mode]))
  ELSE IF SubsPhase
  THEN PrintT(ToJson([subs |-> op, P |-> P, deny |-> den, mode |-> mode, fail |-> fail]))
  ELSE PrintT(ToJson([op |-> Ops[op].id, P |-> P, deny |-> den, mode |-> mode, delivery |-> delivery, split |-> split,
                      partial |-> partial, fail |-> fail]))
=============================================================================
