---------------------------- MODULE EntityCache ----------------------------
(* C16 -- "Entity response caching is transparent and honours Cache-Control". *)
(*                                                                            *)
(* A gateway answers a HISTORY of requests.  A request is a chain of entity   *)
(* fetch steps [tg, sel, batch]: target (subgraph:EntityType), selection and  *)
(* the set of entities (representations) of the batch.  The subgraph data is   *)
(* static: the true value of (tg, sel, e) is Truth(..) for the whole history.  *)
(* With a cache attached every step runs                                       *)
(*    Lookup  (GetMany; all-or-nothing: served from the cache only on a full   *)
(*             hit; a Get error is a miss)                                      *)
(*    Load    (subgraph exchange with an outcome and a Cache-Control header)    *)
(*    Collect (items only from a clean 2xx response whose header MayStore,      *)
(*             ttl <= Lifetime)            -- part of Load here                 *)
(*    Flush   (SetMany; may fail or apply any subset)                           *)
(* and the environment may Tick the clock between requests and Evict entries.   *)
(* `resp` is what the client gets with the cache, `ref` what the same request   *)
(* gets without one (same subgraph outcomes for the exchanges that happened).   *)
(*                                                                            *)
(* Properties: CacheTransparent (resp = ref, invariant), StoreSound            *)
(* (invariant), StoredOnlyIfAllowed (action property on store').               *)
(*                                                                            *)
(* Code map: resolve/loader.go loadPhase/mergePhase/resolveSingle,             *)
(* resolve/response_cache.go responseCacheLookup / Collect / Flush,            *)
(* loader.go prepareEntityFetch / prepareBatchEntityFetch (keys),              *)
(* pkg/caching key.go / cachecontrol.go.                                       *)
(* Bug # "none" seeds a defect into the MODEL (negative sanity runs only).     *)
EXTENDS EntityCacheOps
CONSTANTS Menu,        \* sequence of requests [q |-> text, steps |-> << [tg, sel, batch] .. >>]
          Headers,     \* sequence of header denotations [dirs |-> << Dir.. >>, bad |-> BOOLEAN]
          Outcomes,    \* subset of {"clean", "errs", "s500", "s404", "s300", "null1", "dead"}
          DefaultTTL, MaxReq, MaxTick,
          GetFaults,   \* BOOLEAN: GetMany may fail
          SetFaults,   \* "none" | "three" (ok / nothing / lower half) | "all" (any subset)
          MaxEvict,    \* evictions per history
          TTLSlack,    \* BOOLEAN: the implementation may also choose a shorter ttl (1)
          Bug

VARIABLES store, clock, nreq, cur, pos, phase, items, last, resp, ref, nevict
vars == <<store, clock, nreq, cur, pos, phase, items, last, resp, ref, nevict>>

Truth(st, e) == <<st.tg, st.sel, e>>
Null == <<"null", "null", 0>>
KeyOf(st, e) == CASE Bug = "key_no_sel" -> <<st.tg, "*", e>>
                  [] Bug = "key_no_ent" -> <<st.tg, st.sel, 0>>
                  [] OTHER -> <<st.tg, st.sel, e>>
KeysOf(st) == {KeyOf(st, e) : e \in st.batch}
CurStep == Menu[cur].steps[pos]
NoLoad == [o |-> "none", h |-> 0]
NoVals == [e \in {} |-> Null]

StatusOf(o) == CASE o = "s500" -> 500 [] o = "s404" -> 404 [] o = "s300" -> 300 [] o = "dead" -> 0 [] OTHER -> 200
CleanOf(o) == o \in {"clean", "s500", "s404", "s300", "null1"}   \* body carries no errors
\* "null1": the subgraph answers null for the first representation of the batch (entity unknown there), no errors;
\* in every other outcome but "dead" the data is intact
Lowest(batch) == CHOOSE e \in batch : \A x \in batch : e <= x
Delivered(st, o, e) == IF o = "null1" /\ e = Lowest(st.batch) THEN Null ELSE Truth(st, e)

Init == /\ store = EmptyStore /\ clock = 0 /\ nreq = 0 /\ cur = 0 /\ pos = 0 /\ phase = "idle"
        /\ items = EmptyStore /\ last = NoLoad /\ resp = <<>> /\ ref = <<>> /\ nevict = 0

\* next step of the chain, or the end of the request (a dead fetch skips its dependants)
Advance(dead) ==
  IF ~dead /\ pos < Len(Menu[cur].steps)
  THEN pos' = pos + 1 /\ phase' = "lookup" /\ cur' = cur
  ELSE pos' = 0 /\ phase' = "done" /\ cur' = cur

\* the response has been delivered (and compared); forget it
EndReq ==
  /\ phase = "done"
  /\ phase' = "idle" /\ cur' = 0 /\ resp' = <<>> /\ ref' = <<>> /\ last' = NoLoad
  /\ UNCHANGED <<store, clock, nreq, pos, items, nevict>>

StartReq(q, d) ==
  /\ phase = "idle" /\ nreq < MaxReq
  /\ nreq' = nreq + 1 /\ cur' = q /\ pos' = 1 /\ phase' = "lookup" /\ clock' = clock + d
  /\ UNCHANGED <<store, items, nevict, resp, ref, last>>

Evict(e) ==
  /\ phase = "lookup" /\ nevict < MaxEvict
  /\ e \in CurStep.batch /\ KeyOf(CurStep, e) \in DOMAIN store
  /\ store' = Drop(store, KeyOf(CurStep, e)) /\ nevict' = nevict + 1
  /\ UNCHANGED <<clock, nreq, cur, pos, phase, items, last, resp, ref>>

\* Get results: "ok", "err" (GetMany fails) and "empty" (GetMany reports a key as found but with an empty Value:
\* that is a miss, caching.Item doc / responseCacheLookup)
\* Error CLASSES of a failing cache call: a plain error, an error wrapping context.DeadlineExceeded / context.Canceled (the
\* cache client's own operation timeout while the request context is alive) and a net.Error with Timeout().  The class must
\* make no difference: a failing GetMany is a miss, a failing SetMany stores an unspecified subset, the request goes on.
ErrClasses == {"err", "err_deadline", "err_canceled", "err_net"}
GetResults == IF GetFaults THEN {"ok", "empty"} \cup ErrClasses ELSE {"ok"}
Found(gf) == IF gf \in ErrClasses THEN {} ELSE Live(store, clock, KeysOf(CurStep))
IsHit(found, gf) == IF Bug = "partial_as_full" THEN found # {} /\ gf = "ok"
                    ELSE IF Bug = "empty_is_hit" THEN FullHit(found, KeysOf(CurStep))
                    ELSE gf = "ok" /\ FullHit(found, KeysOf(CurStep))

Lookup(gf) ==
  /\ phase = "lookup"
  /\ gf \in GetResults
  /\ LET st == CurStep
         found == Found(gf)
         truth == [mark |-> "clean", vals |-> [e \in st.batch |-> Truth(st, e)]]
     IN IF (gf \in ErrClasses /\ Bug = "get_err_fails") \/ (gf \in {"err_deadline", "err_canceled"} /\ Bug = "get_ctxerr_fails")
        THEN /\ resp' = Append(resp, [mark |-> "cache-error", vals |-> NoVals])
             /\ ref' = Append(ref, truth)
             /\ Advance(TRUE)
             /\ UNCHANGED <<store, clock, nreq, items, last, nevict>>
        ELSE IF IsHit(found, gf)
        THEN /\ resp' = Append(resp, [mark |-> "clean",
                                      vals |-> [e \in st.batch |-> IF KeyOf(st, e) \in found /\ ~(gf = "empty" /\ e = Lowest(st.batch))
                                                                   THEN store[KeyOf(st, e)].val ELSE Null]])
             /\ ref' = Append(ref, truth)
             /\ Advance(FALSE)
             /\ UNCHANGED <<store, clock, nreq, items, last, nevict>>
        ELSE /\ phase' = "load"
             /\ UNCHANGED <<store, clock, nreq, cur, pos, items, last, resp, ref, nevict>>

\* what the (possibly bugged) implementation collects
ImplAllowed(o, h) ==
  CASE Bug = "store_errors" -> Success(StatusOf(o)) /\ MayStore(h.dirs, h.bad, DefaultTTL)
    [] Bug = "store_non2xx" -> StatusOf(o) > 0 /\ StatusOf(o) < 400 /\ CleanOf(o) /\ MayStore(h.dirs, h.bad, DefaultTTL)
    [] Bug = "private_ignored" -> /\ Success(StatusOf(o)) /\ CleanOf(o) /\ ~h.bad /\ Has(h.dirs, "public")
                                  /\ ~Has(h.dirs, "no-store") /\ ~Has(h.dirs, "no-cache") /\ Lifetime(h.dirs, DefaultTTL) > 0
    [] OTHER -> CollectAllowed(StatusOf(o), CleanOf(o), h.dirs, h.bad, DefaultTTL)
ImplTTLs(h) ==
  IF Bug = "ttl_maxage_first" /\ Has(h.dirs, "max-age") /\ First(h.dirs, "max-age") > 0 THEN {First(h.dirs, "max-age")}
  ELSE {Lifetime(h.dirs, DefaultTTL)} \cup (IF TTLSlack THEN {1} ELSE {})

Load(o, hi) ==
  /\ phase = "load" /\ o \in Outcomes /\ hi \in 1..Len(Headers)
  /\ LET st == CurStep
         h == Headers[hi]
         r == [mark |-> o, vals |-> IF o = "dead" THEN NoVals ELSE [e \in st.batch |-> Delivered(st, o, e)]]
         \* one item per OBJECT-valued entity
         objs == {e \in st.batch : Delivered(st, o, e) # Null}
     IN /\ resp' = Append(resp, r) /\ ref' = Append(ref, r)
        /\ IF ImplAllowed(o, h)
           THEN /\ last' = [o |-> o, h |-> hi]
                /\ \E t \in ImplTTLs(h) :
                     items' = [k \in {KeyOf(st, e) : e \in objs} |-> [val |-> Truth(st, CHOOSE e \in objs : KeyOf(st, e) = k), ttl |-> t]]
                /\ phase' = "flush" /\ UNCHANGED <<cur, pos>>
           ELSE items' = EmptyStore /\ last' = NoLoad /\ Advance(o = "dead")
        /\ UNCHANGED <<store, clock, nreq, nevict>>

\* the lower half of the batch (the driver's "partial write": the first ceil(n/2) items of the SetMany call)
LowerHalf(S) == {k \in S : 2 * Cardinality({x \in S : x[3] < k[3]}) < Cardinality(S)}
Applicable == CASE SetFaults = "none" -> {DOMAIN items}
                [] SetFaults = "three" -> {DOMAIN items, {}, LowerHalf(DOMAIN items)}
                [] OTHER -> SUBSET DOMAIN items

Flush(applied) ==
  /\ phase = "flush" /\ applied \in Applicable
  /\ store' = Put(store, clock, items, applied)
  /\ items' = EmptyStore /\ last' = NoLoad
  /\ Advance(FALSE)
  /\ UNCHANGED <<clock, nreq, resp, ref, nevict>>

Next == \/ EndReq
        \/ \E q \in 1..Len(Menu), d \in 0..MaxTick : StartReq(q, d)
        \/ \E e \in 1..3 : Evict(e)
        \/ \E gf \in GetResults : Lookup(gf)
        \/ \E o \in Outcomes, hi \in 1..Len(Headers) : Load(o, hi)
        \/ \E ap \in Applicable : Flush(ap)
Spec == Init /\ [][Next]_vars

(* ------------------------------------------------------------------------- *)
(* Properties                                                                 *)
(* ------------------------------------------------------------------------- *)
\* every response (prefix) equals the response of the same request without a cache
CacheTransparent == resp = ref
\* whatever is in the store is the true value of its key
StoreSound == \A k \in DOMAIN store : store[k].val = k
\* an entry appears / changes only by a flush after a clean 2xx load whose header allows it, and lives no longer than granted
StoredOnlyIfAllowed ==
  [][\A k \in DOMAIN store' :
       (k \notin DOMAIN store \/ store'[k] # store[k]) =>
          /\ phase = "flush" /\ last.o # "none"
          /\ CollectAllowed(StatusOf(last.o), CleanOf(last.o), Headers[last.h].dirs, Headers[last.h].bad, DefaultTTL)
          /\ store'[k].exp > clock
          /\ store'[k].exp - clock <= Lifetime(Headers[last.h].dirs, DefaultTTL)]_vars
\* negative sanity: the model really serves from the cache / meets partial hits (both must be VIOLATED)
NeverHit == [][~(phase = "lookup" /\ phase' # "load" /\ pos' # pos)]_vars
NeverPartial == [][~(phase = "lookup" /\ phase' = "load" /\ Live(store, clock, KeysOf(CurStep)) # {})]_vars
=============================================================================
