CONSTANTS
  MaxP = 2
SPECIFICATION Spec
CONSTRAINT Emit
CHECK_DEADLOCK FALSE
