----------------------------- MODULE Gen_DeferQ -----------------------------
(* C10 - generator of @defer decorations.  A state is one operation: a base   *)
(* query of the menu (over the federationtesting supergraph: accounts,        *)
(* products, reviews) plus a set of fragments that wrap some of its fields.    *)
(* The transitions are the decoration actions; TLC's state graph (BFS for few  *)
(* actions, -simulate beyond) is the set of test operations.  Every state is   *)
(* printed; checks/c10.py renders the three texts (with @defer, with the        *)
(* directive stripped, with if:false everywhere) from the printed structure.   *)
(*                                                                           *)
(* Base query = table of nodes [p, f, tc, ty]: p parent node (0 = operation    *)
(* root), f field name, tc the type condition the field needs inside an         *)
(* abstract parent ("" = none), ty the type of its selection set ("" = leaf).   *)
(* Fragment = [host, up, kind, mode, label, typed, tc]: host = node whose           *)
(* selection set contains it (0 = root), up = enclosing fragment of the same     *)
(* selection set (0 = none; NestDefer), kind inline | spread (named fragment),   *)
(* mode on | ifFalse | varTrue | varFalse, label, typed (explicit "on T"),        *)
(* tc = type condition shared by everything inside it.                          *)
(* in[x] = fragment that directly contains node x (0 = plain).                  *)
(* dup[x] = -1 no copy | 0 a non-deferred copy of x next to the fragments |      *)
(*          j a second copy inside fragment j (overlapping fields).              *)
(***************************************************************************)
EXTENDS Integers, Sequences, FiniteSets, TLC, Json

CONSTANTS MaxF,     \* max number of fragments
          MaxActs,  \* max number of decoration actions
          MaxSub    \* max size of the field subset wrapped by one fragment

N(p, f, tc, ty) == [p |-> p, f |-> f, tc |-> tc, ty |-> ty]

Menu == <<
  \* M1  accounts -> reviews -> products / accounts: entity boundaries, list
  [root |-> "Query", nulls |-> <<"me", "reviews">>, nodes |-> <<
     N(0, "me", "", "User"), N(1, "id", "", ""), N(1, "username", "", ""), N(1, "realName", "", ""),
     N(1, "reviews", "", "Review"), N(5, "body", "", ""), N(5, "product", "", "Product"),
     N(7, "upc", "", ""), N(7, "name", "", ""), N(7, "price", "", ""),
     N(5, "author", "", "User"), N(11, "username", "", ""), N(1, "__typename", "", ""), N(7, "__typename", "", "")>>],
  \* M2  list at the root: products -> reviews -> accounts
  [root |-> "Query", nulls |-> <<"topProducts", "reviews">>, nodes |-> <<
     N(0, "topProducts", "", "Product"), N(1, "upc", "", ""), N(1, "name", "", ""), N(1, "price", "", ""),
     N(1, "inStock", "", ""), N(1, "reviews", "", "Review"), N(6, "body", "", ""),
     N(6, "author", "", "User"), N(8, "id", "", ""), N(8, "username", "", ""), N(8, "realName", "", "")>>],
  \* M3  union in a list, interface below it, entity boundary below the union
  [root |-> "Query", nulls |-> <<"wallet", "me">>, nodes |-> <<
     N(0, "me", "", "User"), N(1, "id", "", ""), N(1, "history", "", "History"),
     N(3, "quantity", "Purchase", ""), N(3, "wallet", "Purchase", "Wallet"),
     N(5, "currency", "", ""), N(5, "amount", "", ""),
     N(3, "rating", "Sale", ""), N(3, "location", "Sale", ""), N(3, "product", "Sale", "Product"),
     N(10, "upc", "", ""), N(10, "name", "", ""), N(5, "specialField1", "WalletType1", ""),
     N(3, "__typename", "", "")>>],
  \* M4  interface and union inside lists (reviews subgraph)
  [root |-> "Query", nulls |-> <<"comment", "attachments">>, nodes |-> <<
     N(0, "me", "", "User"), N(1, "reviews", "", "Review"), N(2, "body", "", ""),
     N(2, "comment", "", "Comment"), N(4, "upc", "", ""), N(4, "body", "", ""), N(4, "subject", "Question", ""),
     N(2, "attachments", "", "Attachment"), N(8, "body", "Question", ""), N(8, "upc", "Question", ""),
     N(8, "score", "Rating", ""), N(8, "size", "Video", ""), N(4, "__typename", "", ""), N(8, "__typename", "", "")>>],
  \* M5  several root fields on different subgraphs
  [root |-> "Query", nulls |-> <<"me", "cat">>, nodes |-> <<
     N(0, "me", "", "User"), N(1, "id", "", ""), N(1, "username", "", ""),
     N(0, "topProducts", "", "Product"), N(4, "name", "", ""), N(4, "price", "", ""),
     N(0, "cat", "", "Cat"), N(7, "name", "", "")>>]
>>

VARIABLES m, frags, in, dup, nul, acts
gvars == <<m, frags, in, dup, nul, acts>>

Nodes == Menu[m].nodes
NodeIds == DOMAIN Nodes
Kids(h) == {x \in NodeIds : Nodes[x].p = h}
Hosts == {0} \cup {x \in NodeIds : Nodes[x].ty # ""}
NF == Len(frags)

GenInit ==
  /\ m \in DOMAIN Menu
  /\ frags = <<>>
  /\ in = [x \in DOMAIN Menu[m].nodes |-> 0]
  /\ dup = [x \in DOMAIN Menu[m].nodes |-> -1]
  /\ nul \in {0} \cup DOMAIN Menu[m].nulls
  /\ acts = <<>>

SameTc(S) == \A x, y \in S : Nodes[x].tc = Nodes[y].tc
Sub(S) == {T \in SUBSET S : T # {} /\ Cardinality(T) <= MaxSub /\ SameTc(T)}

TcOf(S) == Nodes[CHOOSE x \in S : TRUE].tc
NewFrag(h, up, kind, typed, tc) == [host |-> h, up |-> up, kind |-> kind, mode |-> "on", label |-> FALSE, typed |-> typed, tc |-> tc]

\* wrap plain fields of selection set h into a new fragment
Wrap(kind, name) ==
  \E h \in Hosts : \E S \in Sub({x \in Kids(h) : in[x] = 0}) : \E typed \in BOOLEAN :
    /\ NF < MaxF
    /\ frags' = Append(frags, NewFrag(h, 0, kind, typed \/ kind = "spread", TcOf(S)))
    /\ in' = [x \in NodeIds |-> IF x \in S THEN NF + 1 ELSE in[x]]
    /\ acts' = Append(acts, IF \E j \in DOMAIN frags : frags[j].host = h THEN "SiblingDefer" ELSE name)
    /\ UNCHANGED <<m, dup, nul>>
DeferInline == Wrap("inline", "DeferInline")
DeferSpread == Wrap("spread", "DeferSpread")

\* a fragment directly inside fragment f (same selection set)
NestDefer ==
  \E f \in DOMAIN frags : \E S \in Sub({x \in NodeIds : in[x] = f}) : \E kind \in {"inline", "spread"} :
    /\ NF < MaxF
    /\ frags' = Append(frags, NewFrag(frags[f].host, f, kind, kind = "spread", frags[f].tc))
    /\ in' = [x \in NodeIds |-> IF x \in S THEN NF + 1 ELSE in[x]]
    /\ acts' = Append(acts, "NestDefer")
    /\ UNCHANGED <<m, dup, nul>>

SetMode ==
  \E f \in DOMAIN frags : \E md \in {"ifFalse", "varTrue", "varFalse"} :
    /\ frags[f].mode = "on"
    /\ frags' = [frags EXCEPT ![f].mode = md]
    /\ acts' = Append(acts, IF md = "ifFalse" THEN "DeferIfFalse" ELSE "DeferIfVar")
    /\ UNCHANGED <<m, in, dup, nul>>

Label ==
  \E f \in DOMAIN frags :
    /\ ~frags[f].label
    /\ frags' = [frags EXCEPT ![f].label = TRUE]
    /\ acts' = Append(acts, "Label")
    /\ UNCHANGED <<m, in, dup, nul>>

\* leaf children that can be copied along with a composite field
LeafKids(x) == {y \in Kids(x) : Nodes[y].ty = "" /\ Nodes[y].tc = ""}
Copyable(x) == Nodes[x].ty = "" \/ LeafKids(x) # {}

\* a second copy of a deferred field: plain (non-deferred, wins the merge) or inside another fragment of the same selection set
Overlap ==
  \E x \in NodeIds : \E j \in {0} \cup DOMAIN frags :
    /\ in[x] # 0 /\ dup[x] = -1 /\ Copyable(x)
    /\ j # in[x]
    /\ j # 0 => frags[j].host = Nodes[x].p /\ frags[j].tc = Nodes[x].tc
    /\ dup' = [dup EXCEPT ![x] = j]
    /\ acts' = Append(acts, IF j = 0 THEN "OverlapPlain" ELSE "OverlapDeferred")
    /\ UNCHANGED <<m, frags, in, nul>>

GenNext == Len(acts) < MaxActs /\ (DeferInline \/ DeferSpread \/ NestDefer \/ SetMode \/ Label \/ Overlap)
GenSpec == GenInit /\ [][GenNext]_gvars

Emit ==
  IF frags # <<>>
  THEN PrintT(ToJson([m |-> m, root |-> Menu[m].root, nodes |-> Nodes, frags |-> frags, in |-> in, dup |-> dup,
                      nul |-> IF nul = 0 THEN "" ELSE Menu[m].nulls[nul], acts |-> acts]))
  ELSE TRUE
GenConstraint == Emit
=============================================================================
