----------------------------- MODULE Gen_DeferQ -----------------------------
(* C10 - generator of @defer decorations.  A state is one operation: a base   *)
(* query of the menu (over the federationtesting supergraph: accounts,        *)
(* products, reviews) plus a set of fragments that wrap some of its fields.    *)
(* The transitions are the decoration actions; TLC's state graph (BFS for few  *)
(* actions, -simulate beyond) is the set of test operations.  Every state is   *)
(* printed; checks/c10.py renders the three texts (with @defer, with the        *)
(* directive stripped, with if:false everywhere) from the printed structure.   *)
(*                                                                           *)
(* Base query = table of nodes [p, f, tc, ty]: p parent node (0 = operation    *)
(* root), f field name, tc the type condition the field needs inside an         *)
(* abstract parent ("" = none), ty the type of its selection set ("" = leaf).   *)
(* Fragment = [host, up, kind, mode, label, typed, tc]: host = node whose           *)
(* selection set contains it (0 = root), up = enclosing fragment of the same     *)
(* selection set (0 = none; NestDefer), kind inline | spread (named fragment),   *)
(* mode on | ifFalse | varTrue | varFalse, label, typed (explicit "on T"),        *)
(* tc = type condition shared by everything inside it.                          *)
(* in[x] = fragment that directly contains node x (0 = plain).                  *)
(* al = composite fields selected through an alias.                              *)
(* dup[x] = -1 no copy | 0 a non-deferred copy of x next to the fragments |      *)
(*          j a second copy inside fragment j (overlapping fields).              *)
(***************************************************************************)
EXTENDS Integers, Sequences, FiniteSets, TLC, Json

CONSTANTS MaxF,     \* max number of fragments
          MaxActs,  \* max number of decoration actions
          MaxSub,   \* max size of the field subset wrapped by one fragment
          Menus,    \* which base queries of the menu are decorated
          Pin       \* TRUE: the focused family (see PinNext): only shapes with SharedNested are printed

N(p, f, tc, ty) == [p |-> p, f |-> f, tc |-> tc, ty |-> ty]

Menu == <<
  \* M1  accounts -> reviews -> products / accounts: entity boundaries, list
  [root |-> "Query", nulls |-> <<"me", "reviews">>, nodes |-> <<
     N(0, "me", "", "User"), N(1, "id", "", ""), N(1, "username", "", ""), N(1, "realName", "", ""),
     N(1, "reviews", "", "Review"), N(5, "body", "", ""), N(5, "product", "", "Product"),
     N(7, "upc", "", ""), N(7, "name", "", ""), N(7, "price", "", ""),
     N(5, "author", "", "User"), N(11, "username", "", ""), N(1, "__typename", "", ""), N(7, "__typename", "", "")>>],
  \* M2  list at the root: products -> reviews -> accounts
  [root |-> "Query", nulls |-> <<"topProducts", "reviews">>, nodes |-> <<
     N(0, "topProducts", "", "Product"), N(1, "upc", "", ""), N(1, "name", "", ""), N(1, "price", "", ""),
     N(1, "inStock", "", ""), N(1, "reviews", "", "Review"), N(6, "body", "", ""),
     N(6, "author", "", "User"), N(8, "id", "", ""), N(8, "username", "", ""), N(8, "realName", "", "")>>],
  \* M3  union in a list, interface below it, entity boundary below the union
  [root |-> "Query", nulls |-> <<"wallet", "me">>, nodes |-> <<
     N(0, "me", "", "User"), N(1, "id", "", ""), N(1, "history", "", "History"),
     N(3, "quantity", "Purchase", ""), N(3, "wallet", "Purchase", "Wallet"),
     N(5, "currency", "", ""), N(5, "amount", "", ""),
     N(3, "rating", "Sale", ""), N(3, "location", "Sale", ""), N(3, "product", "Sale", "Product"),
     N(10, "upc", "", ""), N(10, "name", "", ""), N(5, "specialField1", "WalletType1", ""),
     N(3, "__typename", "", "")>>],
  \* M4  interface and union inside lists (reviews subgraph)
  [root |-> "Query", nulls |-> <<"comment", "attachments">>, nodes |-> <<
     N(0, "me", "", "User"), N(1, "reviews", "", "Review"), N(2, "body", "", ""),
     N(2, "comment", "", "Comment"), N(4, "upc", "", ""), N(4, "body", "", ""), N(4, "subject", "Question", ""),
     N(2, "attachments", "", "Attachment"), N(8, "body", "Question", ""), N(8, "upc", "Question", ""),
     N(8, "score", "Rating", ""), N(8, "size", "Video", ""), N(4, "__typename", "", ""), N(8, "__typename", "", "")>>],
  \* M5  several root fields on different subgraphs
  [root |-> "Query", nulls |-> <<"me", "cat">>, nodes |-> <<
     N(0, "me", "", "User"), N(1, "id", "", ""), N(1, "username", "", ""),
     N(0, "topProducts", "", "Product"), N(4, "name", "", ""), N(4, "price", "", ""),
     N(0, "cat", "", "Cat"), N(7, "name", "", "")>>],
  \* M6  small chain used by the focused (Pin) family: object -> list -> entity
  [root |-> "Query", nulls |-> <<"me">>, nodes |-> <<
     N(0, "me", "", "User"), N(1, "id", "", ""), N(1, "reviews", "", "Review"), N(3, "body", "", ""),
     N(3, "product", "", "Product"), N(5, "upc", "", "")>>],
  \* M7  same for a root list: list -> entity list -> entity
  [root |-> "Query", nulls |-> <<"topProducts">>, nodes |-> <<
     N(0, "topProducts", "", "Product"), N(1, "upc", "", ""), N(1, "reviews", "", "Review"), N(3, "body", "", ""),
     N(3, "author", "", "User"), N(5, "username", "", "")>>]
>>

VARIABLES m, frags, in, dup, nul, al, nc, reuse, acts
gvars == <<m, frags, in, dup, nul, al, nc, reuse, acts>>

Nodes == Menu[m].nodes
NodeIds == DOMAIN Nodes
Kids(h) == {x \in NodeIds : Nodes[x].p = h}
Hosts == {0} \cup {x \in NodeIds : Nodes[x].ty # ""}
NF == Len(frags)

\* al = set of composite fields selected through an alias (a<x>: field).  At most one alias is chosen at Init, so
\* that the exhaustive single-action family covers every (decoration, aliased ancestor) pair; AddAlias adds more.
GenInit ==
  /\ m \in Menus
  /\ frags = <<>>
  /\ in = [x \in DOMAIN Menu[m].nodes |-> 0]
  /\ dup = [x \in DOMAIN Menu[m].nodes |-> -1]
  /\ nul \in IF Pin THEN {0} ELSE {0} \cup DOMAIN Menu[m].nulls
  /\ al \in IF Pin THEN {{}} ELSE {{}} \cup {{x} : x \in {y \in DOMAIN Menu[m].nodes : Menu[m].nodes[y].ty # ""}}
  /\ nc = [x \in DOMAIN Menu[m].nodes |-> ""]
  /\ reuse = <<>>
  /\ acts = <<>>

SameTc(S) == \A x, y \in S : Nodes[x].tc = Nodes[y].tc
Sub(S) == {T \in SUBSET S : T # {} /\ Cardinality(T) <= MaxSub /\ SameTc(T)}

TcOf(S) == Nodes[CHOOSE x \in S : TRUE].tc
NewFrag(h, up, kind, typed, tc) == [host |-> h, up |-> up, kind |-> kind, mode |-> "on", label |-> FALSE, typed |-> typed, tc |-> tc, cond |-> ""]

\* wrap plain fields of selection set h into a new fragment
Wrap(kind, name) ==
  \E h \in Hosts : \E S \in Sub({x \in Kids(h) : in[x] = 0}) : \E typed \in BOOLEAN :
    /\ NF < MaxF
    /\ frags' = Append(frags, NewFrag(h, 0, kind, typed \/ kind = "spread", TcOf(S)))
    /\ in' = [x \in NodeIds |-> IF x \in S THEN NF + 1 ELSE in[x]]
    /\ acts' = Append(acts, IF \E j \in DOMAIN frags : frags[j].host = h THEN "SiblingDefer" ELSE name)
    /\ UNCHANGED <<m, dup, nul, al, nc, reuse>>
DeferInline == Wrap("inline", "DeferInline")
DeferSpread == Wrap("spread", "DeferSpread")

\* a fragment directly inside fragment f (same selection set)
NestDefer ==
  \E f \in DOMAIN frags : \E S \in Sub({x \in NodeIds : in[x] = f}) : \E kind \in {"inline", "spread"} :
    /\ NF < MaxF
    /\ frags' = Append(frags, NewFrag(frags[f].host, f, kind, kind = "spread", frags[f].tc))
    /\ in' = [x \in NodeIds |-> IF x \in S THEN NF + 1 ELSE in[x]]
    /\ acts' = Append(acts, "NestDefer")
    /\ UNCHANGED <<m, dup, nul, al, nc, reuse>>

SetMode ==
  \E f \in DOMAIN frags : \E md \in {"ifFalse", "varTrue", "varFalse"} :
    /\ frags[f].mode = "on"
    /\ frags' = [frags EXCEPT ![f].mode = md]
    /\ acts' = Append(acts, IF md = "ifFalse" THEN "DeferIfFalse" ELSE "DeferIfVar")
    /\ UNCHANGED <<m, in, dup, nul, al, nc, reuse>>

Label ==
  \E f \in DOMAIN frags :
    /\ reuse = <<>>
    /\ ~frags[f].label
    /\ frags' = [frags EXCEPT ![f].label = TRUE]
    /\ acts' = Append(acts, "Label")
    /\ UNCHANGED <<m, in, dup, nul, al, nc, reuse>>

\* leaf children that can be copied along with a composite field
LeafKids(x) == {y \in Kids(x) : Nodes[y].ty = "" /\ Nodes[y].tc = ""}
Copyable(x) == Nodes[x].ty = "" \/ LeafKids(x) # {}

\* a second copy of a deferred field: plain (non-deferred, wins the merge) or inside another fragment of the same selection set
Overlap ==
  \E x \in NodeIds : \E j \in {0} \cup DOMAIN frags :
    /\ in[x] # 0 /\ dup[x] = -1 /\ Copyable(x)
    /\ j # in[x]
    /\ j # 0 => frags[j].host = Nodes[x].p /\ frags[j].tc = Nodes[x].tc
    /\ dup' = [dup EXCEPT ![x] = j]
    /\ acts' = Append(acts, IF j = 0 THEN "OverlapPlain" ELSE "OverlapDeferred")
    /\ UNCHANGED <<m, frags, in, nul, al, nc, reuse>>

\* alias a composite field on the path from the root to a fragment (list fields and their ancestors in particular)
RECURSIVE IsAnc(_, _)
IsAnc(a, x) == x # 0 /\ (a = x \/ IsAnc(a, Nodes[x].p))
AddAlias ==
  \E x \in NodeIds :
    /\ Nodes[x].ty # "" /\ x \notin al
    /\ \E f \in DOMAIN frags : IsAnc(x, frags[f].host)
    /\ al' = al \cup {x}
    /\ acts' = Append(acts, "AddAlias")
    /\ UNCHANGED <<m, frags, in, dup, nul, nc, reuse>>

(* @skip / @include next to @defer: on the deferred fragment itself and on fields inside a fragment; literal and     *)
(* variable, both truth values (skipT = @skip(if:true), inclVF = @include(if:$v) with v = false, ...).              *)
Conds == {"skipT", "skipF", "inclT", "inclF", "skipVT", "skipVF", "inclVT", "inclVF"}
CondOnFragment ==
  \E f \in DOMAIN frags : \E c \in Conds :
    /\ frags[f].cond = ""
    /\ frags' = [frags EXCEPT ![f].cond = c]
    /\ acts' = Append(acts, "CondOnFragment")
    /\ UNCHANGED <<m, in, dup, nul, al, nc, reuse>>
CondOnField ==
  \E x \in NodeIds : \E c \in Conds :
    /\ nc[x] = "" /\ Nodes[x].f # "__typename"
    /\ \E a \in NodeIds : IsAnc(a, x) /\ in[a] # 0
    /\ nc' = [nc EXCEPT ![x] = c]
    /\ acts' = Append(acts, "CondOnField")
    /\ UNCHANGED <<m, frags, in, dup, nul, al, reuse>>

(* The same named fragment spread a second time: deferred again or plain, at its own place or at another selection   *)
(* set of the same type (not inside the fragment itself).                                                          *)
HostType(h) == IF h = 0 THEN Menu[m].root ELSE Nodes[h].ty
RECURSIVE Within(_, _)
\* fragment g is f or nested (directly, same selection set) inside f
Within(g, f) == g # 0 /\ (g = f \/ Within(frags[g].up, f))
ReuseSpread ==
  \E f \in DOMAIN frags : \E h \in Hosts : \E d \in BOOLEAN :
    /\ reuse = <<>>
    /\ frags[f].kind = "spread" /\ frags[f].tc = "" /\ frags[f].up = 0
    /\ \A g \in DOMAIN frags : ~frags[g].label
    /\ HostType(h) = HostType(frags[f].host)
    /\ ~\E x \in NodeIds : in[x] # 0 /\ Within(in[x], f) /\ IsAnc(x, h)
    /\ reuse' = <<[f |-> f, host |-> h, d |-> d]>>
    /\ acts' = Append(acts, IF d THEN "ReuseSpreadDeferred" ELSE "ReuseSpreadPlain")
    /\ UNCHANGED <<m, frags, in, dup, nul, al, nc>>

(* Focused family (Pin): untyped inline fragments created host by host plus copies of a composite field in a    *)
(* sibling fragment.  Printed shape SharedNested: two sibling fragments select the SAME object field (the field  *)
(* merges into the first) and a further fragment is nested inside that object - with an enclosing fragment above *)
(* it this is the 3+ level nesting in which a merged-away defer leaves a stale parent id behind.                  *)
PinWrap ==
  \E h \in Hosts : \E S \in Sub({x \in Kids(h) : in[x] = 0}) :
    /\ NF < MaxF
    /\ NF > 0 => frags[NF].host <= h
    /\ frags' = Append(frags, NewFrag(h, 0, "inline", FALSE, TcOf(S)))
    /\ in' = [x \in NodeIds |-> IF x \in S THEN NF + 1 ELSE in[x]]
    /\ acts' = Append(acts, IF \E j \in DOMAIN frags : frags[j].host = h THEN "SiblingDefer" ELSE "DeferInline")
    /\ UNCHANGED <<m, dup, nul, al, nc, reuse>>
PinOverlap ==
  \E x \in NodeIds : \E j \in DOMAIN frags :
    /\ in[x] # 0 /\ dup[x] = -1 /\ Nodes[x].ty # "" /\ LeafKids(x) # {}
    /\ j # in[x] /\ frags[j].host = Nodes[x].p /\ frags[j].tc = Nodes[x].tc
    /\ dup' = [dup EXCEPT ![x] = j]
    /\ acts' = Append(acts, "OverlapDeferred")
    /\ UNCHANGED <<m, frags, in, nul, al, nc, reuse>>
SharedNested == \E x \in NodeIds : dup[x] > 0 /\ in[x] # 0 /\ (\E f \in DOMAIN frags : frags[f].host = x)

GenNext == Len(acts) < MaxActs /\
           IF Pin THEN PinWrap \/ PinOverlap
           ELSE DeferInline \/ DeferSpread \/ NestDefer \/ SetMode \/ Label \/ Overlap \/ AddAlias
                \/ CondOnFragment \/ CondOnField \/ ReuseSpread
GenSpec == GenInit /\ [][GenNext]_gvars

RECURSIVE SetSeq(_)
SetSeq(S) == IF S = {} THEN <<>> ELSE LET x == CHOOSE y \in S : \A z \in S : y <= z IN <<x>> \o SetSeq(S \ {x})

Emit ==
  IF frags # <<>> /\ (Pin => SharedNested)
  THEN PrintT(ToJson([m |-> m, root |-> Menu[m].root, nodes |-> Nodes, frags |-> frags, in |-> in, dup |-> dup,
                      nul |-> IF nul = 0 THEN "" ELSE Menu[m].nulls[nul], al |-> SetSeq(al), nc |-> nc, reuse |-> reuse, acts |-> acts]))
  ELSE TRUE
GenConstraint == Emit
=============================================================================
