CONSTANTS
  MaxF = 4
  MaxActs = 2
  MaxSub = 3
SPECIFICATION GenSpec
CONSTRAINT GenConstraint
CHECK_DEADLOCK FALSE
