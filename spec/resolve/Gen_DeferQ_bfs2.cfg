CONSTANTS
  MaxF = 4
  MaxActs = 2
  MaxSub = 3
  Menus = {1, 2, 3, 4, 5}
  Pin = FALSE
SPECIFICATION GenSpec
CONSTRAINT GenConstraint
CHECK_DEADLOCK FALSE
