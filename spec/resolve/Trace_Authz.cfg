SPECIFICATION TraceSpec
CONSTRAINT HighWater
INVARIANTS Inv_NoDeniedValue Inv_DenialReported Inv_NullPropagates Inv_PrefetchRule Inv_FailClosed Inv_Determined
POSTCONDITION TraceAccepted
CHECK_DEADLOCK FALSE
