CONSTANTS
  MaxDepth = 2
  DeepAll = "thorough"
  SeedKinds = {"Float"}
SPECIFICATION Spec
INVARIANTS SpecSelfConsistent WellTypedExact RejectsNaive RejectsSilent RejectsTooFar Emit
CHECK_DEADLOCK FALSE
