SPECIFICATION TraceSpec
CONSTRAINT ReportAndHighWater
POSTCONDITION TraceAccepted
CHECK_DEADLOCK FALSE
