CONSTANTS
  MaxN = 4
  Family = "max"
SPECIFICATION Spec
INVARIANTS TypeOK Theorem ExactlyOnceStarted OrderIndependent SettleIsReachable
PROPERTIES Terminates
