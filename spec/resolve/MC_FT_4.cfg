CONSTANTS
  TransitiveSkip = TRUE
  FaultMaxN = 4
  MaxN = 4
  Family = "maxred"
SPECIFICATION Spec
INVARIANTS TypeOK Theorem ExactlyOnceStarted OrderIndependent SettleIsReachable
PROPERTIES Terminates
