CONSTANTS
  Probes = TRUE
SPECIFICATION GenSpec
CONSTRAINT GenConstraint
INVARIANT GenOK
CHECK_DEADLOCK FALSE
