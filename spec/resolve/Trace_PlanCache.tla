--------------------------- MODULE Trace_PlanCache ---------------------------
(* Validation of recorded histories (harness/cmd/planx -mode hist) against   *)
(* PlanCache.  One "req" line = one request executed by a REAL engine that   *)
(* serves a whole history (sequentially: g = 0; from two goroutines: g = 1,2)*)
(* under option set o.  The line carries the abstract request (a), the hash  *)
(* of the canonical response (resp), the hash of the response a FRESH        *)
(* default-option engine gives to the same request (ref) and, for sequential *)
(* runs, the hashes of the plan that served the request and of the subgraph  *)
(* request bodies (plan, bod) next to those of a fresh engine with the same  *)
(* option set (fplan, fbod).                                                 *)
(*                                                                           *)
(* The engine model of PlanCache takes the same Request(a) step in lock-step *)
(* (so every abstract request must be in the alphabet and the spec's own     *)
(* invariants are evaluated along the recorded histories); the relations     *)
(* between the observations and the specification are the T_* invariants.    *)
EXTENDS PlanCache, Json, TLCExt, IOUtils
TraceLog == ndJsonDeserialize(IOEnv.TRACE)
VARIABLES l,      \* next line
          obs,    \* the line consumed last
          refOf,  \* Fresh class (in the current subgraph state) -> hash of the reference response seen first for it
          db,     \* values of the mutations executed so far on this engine (state of the subgraphs)
          tcap    \* plan cache capacity of this engine (1024, or 1..3 after VerifResizePlanCache)
tvars == <<vars, l, obs, refOf, db, tcap>>
Ev == TraceLog[l]
IsEvent(e) == l <= Len(TraceLog) /\ Ev.ev = e /\ l' = l + 1
NoObs == [ev |-> "none"]

TraceInit ==
  /\ l = 1
  /\ TLCSet(1, 0) /\ TLCSet(2, 0)
  /\ opts = 0 /\ cache = {} /\ n = 0 /\ ok = TRUE /\ lastHit = FALSE
  /\ obs = NoObs
  /\ refOf = <<>>
  /\ db = <<>> /\ tcap = 1024

\* a new engine (new Env) starts a new history
T_Reset ==
  /\ IsEvent("reset")
  /\ Ev.o \in OptionSets
  /\ opts' = Ev.o /\ cache' = {} /\ n' = 0 /\ ok' = TRUE /\ lastHit' = FALSE
  /\ obs' = Ev
  /\ db' = <<>> /\ tcap' = Ev.cap
  /\ UNCHANGED refOf

T_End == IsEvent("end") /\ obs' = Ev /\ UNCHANGED <<vars, refOf, db, tcap>>

\* observed hit (1) / miss (0) against the model's prediction; 2 = not observable (failed request, concurrent run)
Mismatch(e, modelHit) == IF e.g = 0 /\ e.hit \in {0, 1} /\ e.hit # (IF modelHit THEN 1 ELSE 0) THEN 1 ELSE 0

\* engines with a resized plan cache (tcap < 1024): LRU eviction happens inside the history.  The model's eviction is
\* nondeterministic (Miss keeps any subset); here the observation binds it: a request served by a plan object that already
\* served an earlier request (hit = 1) must be a Hit of the model, a newly planned one (hit = 0) a Miss, and the model's
\* cache has the observed length afterwards.  TLC follows every eviction choice that explains the observations so far;
\* the trace is accepted iff one of them explains all of it.
Strict == tcap < 1024

T_Req ==
  /\ IsEvent("req")
  /\ WellFormed(Ev.a)
  /\ (Ev.g = 0 /\ Ev.hit = 1) => cache # {}         \* NoHitOnEmpty: a plan object can only be re-used after a request created one
  /\ IF Strict /\ Ev.g = 0 /\ Ev.hit \in {0, 1}
       THEN /\ (Ev.hit = 1) <=> (Lookup(Key(Ev.a)) # {})
            /\ Request(Ev.a)
            /\ Cardinality(cache') = Ev.len
       ELSE /\ Request(Ev.a)
            /\ cache \subseteq cache'                \* capacity 1024 is never reached: nothing is evicted
  /\ obs' = Ev
  /\ db' = DbAfter(Ev.a, db)
  /\ UNCHANGED tcap
  /\ refOf' = IF FreshIn(Ev.a, db) \in DOMAIN refOf THEN refOf ELSE refOf @@ (FreshIn(Ev.a, db) :> Ev.ref)
  /\ TLCSet(2, TLCGet(2) + (IF Strict THEN 0 ELSE Mismatch(Ev, lastHit')))

TraceNext == T_Reset \/ T_Req \/ T_End
TraceSpec == TraceInit /\ [][TraceNext]_tvars

IsReq == obs.ev = "req"
\* THE PROPERTY: the response equals the response of a fresh default-option engine, at every position of every
\* history, for every option set, sequentially and under concurrency
T_Transparent == IsReq => obs.resp = obs.ref
\* the reference itself depends only on what Fresh says a response may depend on: renaming the variables, literal vs
\* variable vs default, operation name, fragments vs inline, an extra operation never change the response
T_FreshFunctional == IsReq => refOf[FreshIn(obs.a, IF IsMutation(obs.a.s) /\ obs.a.val # Invalid THEN SubSeq(db, 1, Len(db) - 1) ELSE db)] = obs.ref
\* planning is independent of previous plans and of serving from the cache: the plan that served the request and the
\* subgraph requests it produced are those of a fresh engine with the same option set
T_PlanIndependent == (IsReq /\ obs.g = 0 /\ obs.hit # 2) => (obs.plan = obs.fplan /\ obs.bod = obs.fbod)
\* the spec's own invariant along the recorded history
T_Model == ok /\ KeyFunctional
\* the plan cache never holds more plans than its capacity (observed length, VerifPlanCacheLen) and neither does the model
T_Capacity == (IsReq /\ obs.g = 0) => (obs.len <= tcap /\ Cardinality(cache) <= tcap)

HighWater == TLCSet(1, IF l > TLCGet(1) THEN l ELSE TLCGet(1))
TraceAccepted ==
  /\ PrintT(<<"MODEL_HIT_MISMATCH", TLCGet(2)>>)
  /\ IF TLCGet(1) = Len(TraceLog) + 1 THEN TRUE
     ELSE /\ PrintT(<<"TRACE_STUCK_AT_LINE", TLCGet(1)>>)
          /\ FALSE
=============================================================================
