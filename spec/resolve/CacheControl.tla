---------------------------- MODULE CacheControl ----------------------------
(* C16 -- what a Cache-Control response header MEANS for a shared entity      *)
(* cache (RFC 9111 section 5.2.2, 4.2.1, 1.2.2) and what the property allows   *)
(* the cache to do with it.                                                    *)
(*                                                                             *)
(* A header (all Cache-Control lines of one response joined with ",") denotes  *)
(* a SEQUENCE of directives  [d |-> lower-case name, n |-> number | NoArg]      *)
(* (order matters only for repeated lifetimes: first occurrence wins, RFC 9111 *)
(* 4.2.1) plus the flag `bad`: the header is malformed / its freshness          *)
(* information is invalid, in which case the only acceptable behaviour is "do   *)
(* not store".  Qualified forms (private="f", no-cache="f") count as present.   *)
(*                                                                             *)
(* Code map: v2/pkg/caching/cachecontrol.go TTL, v2/pkg/engine/cache            *)
(* ParseCacheControlResponse / lex.go.                                          *)
EXTENDS Integers, Sequences, FiniteSets, TLC

NoArg == -1
\* the greatest delta-seconds a recipient has to represent (RFC 9111 1.2.2: 2^31 or "the greatest
\* positive integer it can conveniently represent"); also TLC's largest integer
MaxDelta == 2147483647

Dir(d, n) == [d |-> d, n |-> n]
Refusals == {"no-store", "no-cache", "private"}

Has(cc, name) == \E i \in 1..Len(cc) : cc[i].d = name
\* first occurrence wins
First(cc, name) == cc[CHOOSE i \in 1..Len(cc) : cc[i].d = name /\ \A j \in 1..(i - 1) : cc[j].d # name].n

\* s-maxage overrides max-age for a shared cache; otherwise the configured default (0 = none)
Lifetime(cc, default) ==
  IF Has(cc, "s-maxage") THEN First(cc, "s-maxage")
  ELSE IF Has(cc, "max-age") THEN First(cc, "max-age")
  ELSE default

\* "explicitly public ... and never when no-store, no-cache or private is present"
Storable(cc) == Has(cc, "public") /\ \A r \in Refusals : ~Has(cc, r)

\* the upper bound of the property: storing is allowed at all ...
MayStore(cc, bad, default) == ~bad /\ Storable(cc) /\ Lifetime(cc, default) > 0
\* ... and with at most this time to live
MaxTTL(cc, bad, default) == IF MayStore(cc, bad, default) THEN Lifetime(cc, default) ELSE 0
TTLAllowed(ttl, cc, bad, default) == ttl > 0 /\ ttl <= MaxTTL(cc, bad, default)

(* ------------------------------------------------------------------------- *)
(* Canonical rendering (the history generator uses it; spelling variants are  *)
(* produced by Gen_CacheControl).                                              *)
(* ------------------------------------------------------------------------- *)
RenderDir(r) == IF r.n = NoArg THEN r.d ELSE r.d \o "=" \o ToString(r.n)
RECURSIVE RenderFrom(_, _)
RenderFrom(cc, i) == IF i > Len(cc) THEN ""
                     ELSE IF i = Len(cc) THEN RenderDir(cc[i])
                     ELSE RenderDir(cc[i]) \o ", " \o RenderFrom(cc, i + 1)
Render(cc) == RenderFrom(cc, 1)
=============================================================================
