CONSTANTS
  Faithful = TRUE
  MaxDeny = 1
SPECIFICATION Spec
INVARIANTS Neg_AlwaysSent
CHECK_DEADLOCK FALSE
