CONSTANTS
  MaxDepth = 2
  DeepAll = "quick"
  SeedKinds = {"String", "Int", "Float", "Boolean", "Enum", "Scalar", "BigInt", "Custom", "StaticString", "EmptyObject", "EmptyArray", "Null"}
SPECIFICATION Spec
INVARIANTS SpecSelfConsistent WellTypedExact RejectsNaive Emit
CHECK_DEADLOCK FALSE
