CONSTANTS
  MaxDepth = 2
  DeepAll = FALSE
  SeedKinds = {"String", "Int", "Float", "Boolean", "Enum", "Scalar"}
SPECIFICATION Spec
INVARIANTS SpecSelfConsistent WellTypedExact RejectsNaive Emit
CHECK_DEADLOCK FALSE
