------------------------- MODULE Trace_DeferStream -------------------------
(* C10 - validation of what the real engine wrote (harness/cmd/deferx).      *)
(* The log is a concatenation of runs:                                       *)
(*   case   descriptors, fetch groups and the execution tree of the real plan *)
(*   frame  one flushed chunk in tagged form (one line per Flush)             *)
(*   end    writer observations + the data of the same query without @defer   *)
(*          and with @defer(if:false), both executed by the same engine        *)
(* Every frame is fed to the acceptor of DeferStream.tla; the incremental      *)
(* items are applied to the initial data with ApplyAt at                       *)
(* pending.path ++ subPath; at "end" the verdict of the run is the set of       *)
(* violated clauses (empty = accepted).  The verdict is printed per run so      *)
(* that one TLC pass judges every run; Accepted is also an invariant-shaped     *)
(* predicate (used by the .cfg with StopAtFirst = TRUE).                       *)
(***************************************************************************)
EXTENDS DeferStream, Json, TLCExt, IOUtils

TraceLog == ndJsonDeserialize(IOEnv.TRACE)

VARIABLES l,      \* next line
          s,      \* acceptor state
          doc,    \* data reconstructed so far
          paths,  \* set of [id, path] announced so far
          plain,  \* the response is a single non-incremental document
          extra,  \* tags raised outside the acceptor
          plan,   \* the "case" line of the run (descriptors, groups, tree of the real plan)
          conf,   \* ways in which a frame is not a step of Defer.tla (model conformance, not part of the verdict)
          last    \* verdict of the run that ended last

tvars == <<l, s, doc, paths, plain, extra, plan, conf, last>>
Ev == TraceLog[l]
IsEvent(e) == l <= Len(TraceLog) /\ Ev.ev = e /\ l' = l + 1

NullDoc == [t |-> "n", s |-> "null"]

TraceInit ==
  /\ l = 1 /\ TLCSet(1, 0)
  /\ s = StreamInit /\ doc = NullDoc /\ paths = {} /\ plain = FALSE /\ extra = {} /\ last = {}
  /\ plan = [isDefer |-> FALSE, desc |-> <<>>] /\ conf = {}

\* ---- tree of the real plan = BuildTree(descriptors, groups): binds Defer.tla's tree to build_defer_tree.go
DescIds(e) == {e.desc[i].id : i \in DOMAIN e.desc}
ParentOf(e) == [i \in DescIds(e) |-> (CHOOSE d \in SeqRange(e.desc) : d.id = i).parent]
TreeConforms(e) ==
  \/ ~e.isDefer
  \/ /\ SeqRange(e.groups) \subseteq DescIds(e)
     /\ e.tree = BuildTree(ParentOf(e), SeqRange(e.groups))
\* every descriptor has a fetch group (assumption AllGroups = TRUE of the model)
AllHaveGroups(e) == ~e.isDefer \/ SeqRange(e.groups) = DescIds(e)

T_Case ==
  /\ IsEvent("case")
  /\ PrintT(ToJson([kind |-> "plan", id |-> Ev.id, tree |-> TreeConforms(Ev), groups |-> AllHaveGroups(Ev)]))
  /\ s' = StreamInit /\ doc' = NullDoc /\ paths' = {} /\ plain' = FALSE /\ extra' = {}
  /\ plan' = [isDefer |-> Ev.isDefer, desc |-> Ev.desc] /\ conf' = {}
  /\ UNCHANGED last

Ids(q) == [i \in DOMAIN q |-> q[i].id]

PathOf(ps, id) == IF \E p \in ps : p.id = id THEN (CHOOSE p \in ps : p.id = id).path ELSE <<>>
RECURSIVE ApplyAll(_, _, _)
ApplyAll(d, items, ps) ==
  IF items = <<>> THEN d
  ELSE LET it == Head(items) IN
       ApplyAll(IF \E p \in ps : p.id = it.id
                THEN ApplyAt(d, PathOf(ps, it.id) \o it.sub, it.data)
                ELSE Broken("incremental item for an id without announced path"),
                Tail(items), ps)

\* ---- is the frame a step of Defer.tla?  Initial: pending = live top-level defers, hasNext = (pending # {});
\* Begin/Flush(g): completed = <<g>>, items only for g, pending \subseteq children of g (lazy announcement),
\* hasNext = (announced-but-not-completed after the frame # {})  (the meaning of the outstanding counter)
WireParent(id) == IF \E d \in SeqRange(plan.desc) : ToString(d.id) = id
                  THEN ToString((CHOOSE d \in SeqRange(plan.desc) : ToString(d.id) = id).parent) ELSE "?"
ModelStep(f, before, after) ==
  LET open == after.announced \ after.completed IN
  IF ~f.ok \/ ~plan.isDefer THEN {}
  ELSE Tag(f.hasNextPresent /\ f.hasNext # (open # {}), "hasNext # (open # {})")
       \cup (IF before.nframes = 0
             THEN Tag(\E i \in DOMAIN f.pending : WireParent(f.pending[i].id) # "0", "initial frame announces a nested defer")
                  \cup Tag(f.completed # <<>> \/ f.inc # <<>>, "initial frame delivers")
             ELSE Tag(Len(f.completed) # 1, "not exactly one completed id")
                  \cup Tag(f.completed # <<>> /\ (\E i \in DOMAIN f.inc : f.inc[i].id # f.completed[1].id), "item for another id")
                  \cup Tag(f.completed # <<>> /\ (\E i \in DOMAIN f.pending : WireParent(f.pending[i].id) # f.completed[1].id),
                           "announces a defer that is not its child"))

T_Frame ==
  /\ IsEvent("frame")
  /\ LET f == Ev
         first == s.nframes = 0
         isPlain == first /\ f.ok /\ ~f.hasNextPresent /\ f.pending = <<>>
         \* frame shape: the first frame carries data, later frames carry none at top level
         shapeOK == f.ok /\ (first => f.hasData) /\ (~first => ~f.hasData)
         pf == [ok |-> shapeOK, pending |-> Ids(f.pending), inc |-> Ids(f.inc), completed |-> Ids(f.completed),
                hasNext |-> IF f.hasNextPresent THEN f.hasNext ELSE ~isPlain]
         ps == paths \cup {[id |-> f.pending[i].id, path |-> f.pending[i].path] : i \in DOMAIN f.pending}
     IN /\ s' = StreamStep(s, [pf EXCEPT !.hasNext = IF isPlain THEN FALSE ELSE @])
        /\ plain' = (plain \/ isPlain)
        /\ paths' = ps
        /\ extra' = extra \cup Tag(f.ok /\ ~f.hasNextPresent /\ ~isPlain, "HasNextFalseExactlyLast")
        /\ doc' = IF ~f.ok THEN doc
                  ELSE IF first THEN f.data
                  ELSE ApplyAll(doc, f.inc, ps)
        /\ conf' = conf \cup ModelStep(f, s, StreamStep(s, [pf EXCEPT !.hasNext = IF isPlain THEN FALSE ELSE @]))
  /\ UNCHANGED <<last, plan>>

RECURSIVE SetToSeqS(_)
SetToSeqS(S) == IF S = {} THEN <<>> ELSE LET x == CHOOSE y \in S : TRUE IN <<x>> \o SetToSeqS(S \ {x})

AllTags == <<"FramesAtomic", "CompletedOnceAfterPending", "NothingForUnannounced", "HasNextFalseExactlyLast",
             "Terminates", "Applies", "Reconstructs", "IfFalseEqual", "NoWriteAfterDisconnect", "ReleasesOnDisconnect">>

\* client disconnect (the Flush of some frame failed, the request context was cancelled): of the delivered prefix only
\* the safety part of the protocol can be demanded; the resolver has to come back without being fed any further subgraph
\* response, must not call the writer again once a writer call failed, must leave no goroutine behind, and closes the
\* stream at most once
CutVerdict(e) ==
  s.bad \cup extra
  \cup Tag(~e.returned \/ ~e.prompt, "Terminates")
  \cup Tag(e.complete > 1, "Terminates")
  \cup Tag(e.overlap, "FramesAtomic")
  \cup Tag(e.afterFail > 0, "NoWriteAfterDisconnect")
  \cup Tag(e.leaked > 0, "ReleasesOnDisconnect")

FullVerdict(e) ==
  StreamEnd(s) \cup extra
  \cup Tag(~e.returned, "Terminates")
  \* the stream is closed exactly once, after the last frame (a plain response needs no Complete)
  \cup Tag(IF plain THEN e.complete > 1 ELSE ~(e.complete = 1 /\ e.completeLast), "Terminates")
  \cup Tag(e.overlap, "FramesAtomic")
  \* an incremental item must be applicable at its announced path.  The statement quantifies over inputs and
  \* schedules, not over subgraph faults: with an injected failure only the stream-protocol clauses above are judged,
  \* an inapplicable item is reported for information (field "info"), never as part of the verdict
  \cup Tag(~e.faulted /\ IsBroken(doc), "Applies")
  \cup Tag(e.cmp /\ ~IsBroken(doc) /\ doc # e.expected, "Reconstructs")
  \cup Tag(e.cmp /\ e.ifFalse # e.expected, "IfFalseEqual")

EndVerdict(e) == IF e.cut THEN CutVerdict(e) ELSE FullVerdict(e)

T_End ==
  /\ IsEvent("end")
  /\ LET v == EndVerdict(Ev) IN
       /\ last' = v
       /\ PrintT(ToJson([kind |-> "verdict", id |-> Ev.id, verdict |-> SelectSeq(AllTags, LAMBDA t : t \in v),
                          model |-> SetToSeqS(conf),
                          info |-> IF Ev.faulted /\ IsBroken(doc) THEN <<"inapplicable item under an injected failure">> ELSE <<>>]))
  /\ UNCHANGED <<s, doc, paths, plain, extra, plan, conf>>

TraceNext == T_Case \/ T_Frame \/ T_End
TraceSpec == TraceInit /\ [][TraceNext]_tvars

\* invariant form of the judgement (every finished run is accepted)
Accepted == last = {}

HighWater == TLCSet(1, IF l > TLCGet(1) THEN l ELSE TLCGet(1))
TraceConsumed ==
  IF TLCGet(1) = Len(TraceLog) + 1 THEN TRUE
  ELSE /\ PrintT(<<"TRACE_STUCK_AT_LINE", TLCGet(1)>>)
       /\ FALSE
=============================================================================
