CONSTANTS
  MaxDepth = 5
  DeepAll = "sim"
  SeedKinds = {"String", "Int", "Float", "Boolean", "Enum", "Scalar", "BigInt", "Custom", "StaticString", "EmptyObject", "EmptyArray", "Null"}
SPECIFICATION Spec
INVARIANTS SpecSelfConsistent WellTypedExact RejectsNaive RejectsSilent RejectsTooFar Emit
CHECK_DEADLOCK FALSE
