CONSTANTS
  MaxDepth = 5
  DeepAll = TRUE
  SeedKinds = {"String", "Int", "Float", "Boolean", "Enum", "Scalar"}
SPECIFICATION Spec
INVARIANTS SpecSelfConsistent WellTypedExact RejectsNaive RejectsSilent RejectsTooFar Emit
CHECK_DEADLOCK FALSE
