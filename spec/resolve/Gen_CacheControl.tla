-------------------------- MODULE Gen_CacheControl --------------------------
(* Generator of Cache-Control header STRINGS with the directive sequence they *)
(* denote (CacheControl).  A header is built from pieces (one spelling of one  *)
(* directive: case, quoted number, leading zeros, overflow, qualified form,    *)
(* unknown extension, look-alike token, malformed lifetime, broken syntax,     *)
(* list elements that are not tokens)                                          *)
(* joined by separators (",", OWS variants, empty list elements, a new header   *)
(* LINE).  Only headers whose meaning is unambiguous under RFC 9111 / RFC 9110  *)
(* 5.6.1 are produced; `bad` marks headers whose only acceptable treatment is   *)
(* "do not store".                                                             *)
EXTENDS CacheControl, Json
CONSTANTS MaxPieces, PieceDraw
VARIABLES pcs, seps
gvars == <<pcs, seps>>

P(txt, dirs, bad) == [txt |-> txt, dirs |-> dirs, bad |-> bad]
D1(d, n) == <<Dir(d, n)>>
Q == "\""
Pieces == <<
  \* 1-3 public
  P("public", D1("public", NoArg), FALSE), P("PUBLIC", D1("public", NoArg), FALSE), P("Public", D1("public", NoArg), FALSE),
  \* 4-11 max-age
  P("max-age=3", D1("max-age", 3), FALSE), P("MAX-AGE=3", D1("max-age", 3), FALSE),
  P("max-age=" \o Q \o "3" \o Q, D1("max-age", 3), FALSE), P("max-age=003", D1("max-age", 3), FALSE),
  P("max-age=1", D1("max-age", 1), FALSE), P("max-age=99999999999", D1("max-age", MaxDelta), FALSE),
  P("Max-Age=99999999999999999999999999", D1("max-age", MaxDelta), FALSE), P("max-age=0", D1("max-age", 0), FALSE),
  \* 12-15 s-maxage
  P("s-maxage=2", D1("s-maxage", 2), FALSE), P("S-MaxAge=2", D1("s-maxage", 2), FALSE), P("s-maxage=1", D1("s-maxage", 1), FALSE),
  P("s-maxage=0", D1("s-maxage", 0), FALSE),
  \* 16-23 refusals
  P("no-store", D1("no-store", NoArg), FALSE), P("No-Store", D1("no-store", NoArg), FALSE),
  P("private", D1("private", NoArg), FALSE), P("PRIVATE", D1("private", NoArg), FALSE),
  P("private=" \o Q \o "set-cookie" \o Q, D1("private", NoArg), FALSE),
  P("no-cache", D1("no-cache", NoArg), FALSE), P("NO-CACHE", D1("no-cache", NoArg), FALSE),
  P("no-cache=" \o Q \o "set-cookie, x-foo" \o Q, D1("no-cache", NoArg), FALSE),
  \* 24-35 extensions and look-alikes (must neither grant nor refuse)
  P("must-revalidate", D1("must-revalidate", NoArg), FALSE), P("proxy-revalidate", D1("proxy-revalidate", NoArg), FALSE),
  P("immutable", D1("immutable", NoArg), FALSE), P("stale-while-revalidate=30", D1("stale-while-revalidate", 30), FALSE),
  P("foo", D1("foo", NoArg), FALSE), P("foo=bar", D1("foo", NoArg), FALSE),
  P("foo=" \o Q \o "a, no-store" \o Q, D1("foo", NoArg), FALSE), P("foo=" \o Q \o "public" \o Q, D1("foo", NoArg), FALSE),
  P("publicx", D1("publicx", NoArg), FALSE), P("no-storex", D1("no-storex", NoArg), FALSE),
  P("x-private", D1("x-private", NoArg), FALSE), P("maxage=9", D1("maxage", 9), FALSE),
  \* 36-44 invalid freshness information (RFC 9111 4.2.1: treat as stale)
  P("max-age=-3", D1("max-age", 0), TRUE), P("max-age=abc", D1("max-age", 0), TRUE), P("max-age=", D1("max-age", 0), TRUE),
  P("max-age", D1("max-age", 0), TRUE), P("max-age=1.5", D1("max-age", 0), TRUE), P("max-age=+3", D1("max-age", 0), TRUE),
  P("max-age=3s", D1("max-age", 0), TRUE), P("s-maxage=-1", D1("s-maxage", 0), TRUE), P("s-maxage=1e3", D1("s-maxage", 0), TRUE),
  \* 45-48 broken list syntax: the directive set cannot be determined
  P("foo=" \o Q \o "bar", <<>>, TRUE), P("public max-age=3", <<Dir("public", NoArg), Dir("max-age", 3)>>, TRUE),
  P("public;max-age=3", <<Dir("public", NoArg), Dir("max-age", 3)>>, TRUE), P("public" \o Q \o "x" \o Q, D1("public", NoArg), TRUE),
  \* 49-53 a list element that is not a token (RFC 9110 5.6.2 tchar): malformed, but self-delimiting, so it may stand anywhere
  P("/private", <<>>, TRUE), P(";no-store", <<>>, TRUE), P("@foo", <<>>, TRUE), P("pri/vate", <<>>, TRUE), P("no-store;", <<>>, TRUE)
>>
TailBad == 45..48
NPieces == Len(Pieces)
Seps == <<",", ", ", " , ", ",,", ",	", "LINE", " ,, ">>

IsLifetime(p) == Len(Pieces[p].dirs) = 1 /\ Pieces[p].dirs[1].d \in {"max-age", "s-maxage"}
\* unambiguous only: an invalid lifetime is generated only if no other lifetime directive accompanies it, and broken
\* syntax pieces only in last position (what follows an unterminated quote is part of the string)
Addable(p) ==
  /\ (Pieces[p].bad /\ IsLifetime(p)) => \A i \in 1..Len(pcs) : ~IsLifetime(pcs[i])
  /\ IsLifetime(p) => \A i \in 1..Len(pcs) : ~(Pieces[pcs[i]].bad /\ IsLifetime(pcs[i]))
  /\ \A i \in 1..Len(pcs) : pcs[i] \notin TailBad

GenInit == pcs = <<>> /\ seps = <<>>
GenNext == /\ Len(pcs) < MaxPieces
           /\ \E w \in 1..Len(PieceDraw) : \E s \in 1..Len(Seps) :
                /\ Addable(PieceDraw[w])
                /\ pcs' = Append(pcs, PieceDraw[w])
                /\ seps' = IF pcs = <<>> THEN <<>> ELSE Append(seps, s)
                /\ (pcs = <<>> => s = 1)
GenSpec == GenInit /\ [][GenNext]_gvars

RECURSIVE DirsFrom(_), Lines(_, _, _)
DirsFrom(i) == IF i > Len(pcs) THEN <<>> ELSE Pieces[pcs[i]].dirs \o DirsFrom(i + 1)
\* header lines: cur accumulates the current line
Lines(i, cur, acc) ==
  IF i > Len(pcs) THEN Append(acc, cur)
  ELSE IF i = 1 THEN Lines(2, Pieces[pcs[1]].txt, acc)
  ELSE IF Seps[seps[i - 1]] = "LINE" THEN Lines(i + 1, Pieces[pcs[i]].txt, Append(acc, cur))
  ELSE Lines(i + 1, cur \o Seps[seps[i - 1]] \o Pieces[pcs[i]].txt, acc)
IsBad == \E i \in 1..Len(pcs) : Pieces[pcs[i]].bad

Emit == IF pcs # <<>>
        THEN PrintT(ToJson([lines |-> Lines(1, "", <<>>), dirs |-> DirsFrom(1), bad |-> IF IsBad THEN 1 ELSE 0,
                            storable |-> IF MayStore(DirsFrom(1), IsBad, 2) THEN 1 ELSE 0,
                            maxttl |-> MaxTTL(DirsFrom(1), IsBad, 2)]))
        ELSE TRUE
GenConstraint == Emit
AllPieces == [i \in 1..NPieces |-> i]
=============================================================================
