--------------------------- MODULE Gen_DeferSched ---------------------------
(* C10 - schedule seeds.  The number of deferred subgraph exchanges of an      *)
(* operation is only known after the real planner ran, so a schedule is a       *)
(* PRIORITY LIST over canonical exchange indices 1..K (the driver restricts it   *)
(* to the n <= K exchanges it observed; whenever the process is quiescent the    *)
(* held exchange that comes first in the list completes next), plus at most one  *)
(* of                                                                          *)
(*   park    "w": the writer parks at the first Write of incremental frame        *)
(*           parkAt, "f": on entry of the Flush that commits it; while parked     *)
(*           one more exchange completes (Begin(g) is pending while FetchDone(h)  *)
(*           happens in Defer.tla)                                              *)
(*   fault   "hard": the pre-fetch check of deferred fetch faultAt fails          *)
(*           (outcome "hard" of Defer.tla); otherwise the subgraph answer of      *)
(*           exchange faultAt is replaced by the named fault (outcome "bubble"     *)
(*           or partial data)                                                   *)
(*   cut     "cancel": the client disconnects - the Flush that would commit frame  *)
(*           cutAt fails, the request context is cancelled, every later writer     *)
(*           call fails                                                          *)
(* Every combination is an initial state; there are no transitions.              *)
(***************************************************************************)
EXTENDS Integers, Sequences, FiniteSets, TLC, Json
CONSTANT K
VARIABLES prio, park, parkAt, fault, faultAt, cut, cutAt
svars == <<prio, park, parkAt, fault, faultAt, cut, cutAt>>
Perms == {p \in [1..K -> 1..K] : \A i, j \in 1..K : i # j => p[i] # p[j]}
Faults == {"hard", "Transport", "ErrorsNoData", "DataNull", "Non2xxNonJSON"}
SchedInit ==
  /\ prio \in Perms
  /\ \/ park = "" /\ parkAt = 0 /\ fault = "" /\ faultAt = 0 /\ cut = "" /\ cutAt = 0
     \/ park \in {"w", "f"} /\ parkAt \in 1..K /\ fault = "" /\ faultAt = 0 /\ cut = "" /\ cutAt = 0
     \/ park = "" /\ parkAt = 0 /\ fault \in Faults /\ faultAt \in 1..K /\ cut = "" /\ cutAt = 0
     \* client disconnect (Disconnect of Defer.tla): the Flush of frame cutAt fails and the request context is cancelled
     \/ park = "" /\ parkAt = 0 /\ fault = "" /\ faultAt = 0 /\ cut = "cancel" /\ cutAt \in 0..K
SchedSpec == SchedInit /\ [][UNCHANGED svars]_svars
Emit == PrintT(ToJson([prio |-> prio, park |-> park, parkAt |-> parkAt, fault |-> fault, faultAt |-> faultAt, cut |-> cut, cutAt |-> cutAt]))
=============================================================================
