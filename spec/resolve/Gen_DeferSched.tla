--------------------------- MODULE Gen_DeferSched ---------------------------
(* C10 - schedule seeds.  The number of deferred subgraph exchanges of an      *)
(* operation is only known after the real planner ran, so a schedule is a       *)
(* PRIORITY LIST over canonical exchange indices 1..K (the driver restricts it   *)
(* to the n <= K exchanges it observed; whenever the process is quiescent the    *)
(* held exchange that comes first in the list completes next), plus at most one  *)
(* of                                                                          *)
(*   park    "w": the writer parks at the first Write of incremental frame        *)
(*           parkAt, "f": on entry of the Flush that commits it; while parked     *)
(*           one more exchange completes (Begin(g) is pending while FetchDone(h)  *)
(*           happens in Defer.tla)                                              *)
(*   fault   "hard": the pre-fetch check of deferred fetch faultAt fails          *)
(*           (outcome "hard" of Defer.tla); otherwise the subgraph answer of      *)
(*           exchange faultAt is replaced by the named fault (outcome "bubble"     *)
(*           or partial data)                                                   *)
(*   cut     "cancel": the client disconnects - the Flush that would commit frame  *)
(*           cutAt fails, the request context is cancelled, every later writer     *)
(*           call fails                                                          *)
(*   deny    the coordinate is denied by the authorizer (dmode post | pre); the run  *)
(*           is judged like a faulted one: stream-protocol clauses only            *)
(* Every combination is an initial state; there are no transitions.              *)
(***************************************************************************)
EXTENDS Integers, Sequences, FiniteSets, TLC, Json
CONSTANT K
VARIABLES prio, park, parkAt, fault, faultAt, cut, cutAt, deny, dmode
svars == <<prio, park, parkAt, fault, faultAt, cut, cutAt, deny, dmode>>
Perms == {p \in [1..K -> 1..K] : \A i, j \in 1..K : i # j => p[i] # p[j]}
Denials == {"User.username", "User.realName", "Review.body", "Product.name", "Product.price", "Purchase.quantity",
            "Question.subject", "User.reviews", "Review.author"}
Faults == {"hard", "Transport", "ErrorsNoData", "DataNull", "Non2xxNonJSON"}
SchedInit ==
  /\ prio \in Perms
  /\ \/ park = "" /\ parkAt = 0 /\ fault = "" /\ faultAt = 0 /\ cut = "" /\ cutAt = 0 /\ deny = "" /\ dmode = ""
     \/ park \in {"w", "f"} /\ parkAt \in 1..K /\ fault = "" /\ faultAt = 0 /\ cut = "" /\ cutAt = 0 /\ deny = "" /\ dmode = ""
     \/ park = "" /\ parkAt = 0 /\ fault \in Faults /\ faultAt \in 1..K /\ cut = "" /\ cutAt = 0 /\ deny = "" /\ dmode = ""
     \* client disconnect (Disconnect of Defer.tla): the Flush of frame cutAt fails and the request context is cancelled
     \/ park = "" /\ parkAt = 0 /\ fault = "" /\ faultAt = 0 /\ cut = "cancel" /\ cutAt \in 0..K /\ deny = "" /\ dmode = ""
     \* authorization: one protected coordinate is denied, post-fetch (Authorizer) or pre-fetch (BatchAuthorizer)
     \/ park = "" /\ parkAt = 0 /\ fault = "" /\ faultAt = 0 /\ cut = "" /\ cutAt = 0 /\ deny \in Denials /\ dmode \in {"post", "pre"}
SchedSpec == SchedInit /\ [][UNCHANGED svars]_svars
Emit == PrintT(ToJson([prio |-> prio, park |-> park, parkAt |-> parkAt, fault |-> fault, faultAt |-> faultAt, cut |-> cut, cutAt |-> cutAt, deny |-> deny, dmode |-> dmode]))
=============================================================================
