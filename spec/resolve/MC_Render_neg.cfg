CONSTANTS
  MaxDepth = 0
  DeepAll = "sim"
  SeedKinds = {"String", "Int", "Float", "Boolean", "Enum", "Scalar", "BigInt", "Custom", "StaticString", "EmptyObject", "EmptyArray", "Null"}
SPECIFICATION Spec
INVARIANTS NaiveAccepted
CHECK_DEADLOCK FALSE
