CONSTANTS
  MaxDepth = 0
  DeepAll = TRUE
  SeedKinds = {"String", "Int", "Float", "Boolean", "Enum", "Scalar"}
SPECIFICATION Spec
INVARIANTS NaiveAccepted
CHECK_DEADLOCK FALSE
