CONSTANTS
  MaxPieces = 1
  PieceDraw <- AllPieces
SPECIFICATION GenSpec
CONSTRAINT GenConstraint
CHECK_DEADLOCK FALSE
