CONSTANTS
  MaxN = 3
  MaxDeps = 3
  Classes = {"ok", "Transport", "ErrorsNoData", "PartialData", "Non2xxJSON", "RateLimited"}
  MaxFaults = 2
  Ents = {1}
SPECIFICATION MCSpec
INVARIANTS TypeOK InstWellFormed NoFabrication Independent SkipJustified ErrorReportedPerFetch ErrorReported DepsSettled DeniedNotSent
PROPERTIES Terminates
