CONSTANTS
  Menu <- Gen_Menu
  Headers <- Gen_Headers
  Outcomes = {"clean", "errs", "s500", "s404", "s300", "null1", "dead"}
  HeaderDraw <- Gen_HeaderDraw
  OutcomeDraw <- Gen_OutcomeDraw
  MenuDraw <- Gen_MenuDraw
  TickDraw <- Gen_TickDraw
  GetDraw <- Gen_GetDraw
  SetDraw <- Gen_SetDraw
  DefaultTTL = 2
  MaxReq = 5
  MaxTick = 2
  GetFaults = TRUE
  SetFaults = "three"
  MaxEvict = 2
  TTLSlack = FALSE
  Bug = "none"
SPECIFICATION GenSpec
CONSTRAINT GenConstraint
CHECK_DEADLOCK FALSE
