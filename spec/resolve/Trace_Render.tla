---------------------------- MODULE Trace_Render ----------------------------
(* Validation pass of C02: every NDJSON line is one observation              *)
(*   [id, T, j, out]   T, j = the case TLC generated (Gen_Render),           *)
(*                     out  = the bytes the real renderer wrote for it, as    *)
(*                            tagged JSON (harness/cmd/render)                *)
(* One line is consumed per step; in the state "line l is next" the relation  *)
(* of Render.tla is evaluated on that line.                                   *)
(*  Trace_Render.cfg        INVARIANT RenderOKInv: stops at the first line    *)
(*                          that violates the relation                       *)
(*  Trace_Render_report.cfg the same evaluation, but every violating line is  *)
(*                          printed with its failed conjuncts and TLC goes    *)
(*                          on, so that one run judges the whole batch        *)
(* Acceptance = high-water mark of consumed lines (POSTCONDITION).            *)
EXTENDS Render, Json, IOUtils, TLCExt
TraceLog == ndJsonDeserialize(IOEnv.TRACE)
VARIABLE l
TraceInit == l = 1 /\ TLCSet(1, 0)
TraceNext == l <= Len(TraceLog) /\ l' = l + 1
TraceSpec == TraceInit /\ [][TraceNext]_l

Obs == TraceLog[l]
Failures == IF l <= Len(TraceLog) THEN Verdict(Obs.T, Obs.j, Obs.out) ELSE {}

\* the property, as an invariant over the observations
RenderOKInv == Failures = {}
WellFormedInv == \A f \in Failures : f.c # "WellFormed"
TypeSafeInv == \A f \in Failures : f.c # "TypeSafe"
KeysInv == \A f \in Failures : f.c # "Keys"
ProjectionInv == \A f \in Failures : f.c # "Projection"
NullPropInv == \A f \in Failures : f.c # "NullProp"
ReportedInv == \A f \in Failures : f.c # "Reported"

HighWater == TLCSet(1, IF l > TLCGet(1) THEN l ELSE TLCGet(1))
\* report mode: print the failed conjuncts of a violating line and continue
Report == /\ HighWater
          /\ IF Failures = {} THEN TRUE
             ELSE PrintT(ToJson([line |-> l, id |-> Obs.id, fails |-> Failures]))
TraceAccepted ==
  IF TLCGet(1) = Len(TraceLog) + 1 THEN TRUE
  ELSE /\ PrintT(<<"TRACE_STUCK_AT_LINE", TLCGet(1)>>)
       /\ FALSE
=============================================================================
