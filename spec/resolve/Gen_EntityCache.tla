--------------------------- MODULE Gen_EntityCache ---------------------------
(* Generator: behaviours of EntityCache over the REAL request menu (queries    *)
(* against the federationtesting supergraph, abstracted to their entity-fetch  *)
(* chains) printed as histories for harness/cmd/cachex.  hist records every     *)
(* choice (request, tick, eviction, Get fault, subgraph outcome + header,       *)
(* Set fault) together with what the model predicts (hit / load); every         *)
(* distinct prefix is a distinct state, so BFS enumerates all histories and     *)
(* -simulate samples them.  W (weights) only multiplies the probability of the  *)
(* common choices in simulation mode.                                          *)
EXTENDS EntityCache, EntityCacheMenu, Json
VARIABLE hist

\* weights for simulation: index sets the generator draws from
CONSTANTS HeaderDraw,   \* sequence of header indexes (repeats = weight)
          OutcomeDraw,  \* sequence of outcomes (repeats = weight)
          MenuDraw,     \* sequence of menu indexes
          TickDraw,     \* sequence of ticks (each <= MaxTick)
          GetDraw,      \* sequence of GetMany results "ok" | "err"
          SetDraw       \* sequence of SetMany results "ok" | "err" | "part"

Gen_HeaderDraw == <<1, 1, 2, 2, 3, 4, 5, 5, 6, 7, 8, 9, 10, 11, 12, 13, 14, 15>>
Gen_OutcomeDraw == <<"clean", "clean", "clean", "clean", "clean", "clean", "clean", "clean", "errs", "s500", "s404", "s300", "null1", "dead">>
\* exhaustive small configuration: storable / default / refused header, clean or erroneous
Gen_MenuDraw == <<1, 1, 2, 3, 4, 4, 5, 6, 6, 7, 8, 8, 9, 10, 11, 12, 13, 14, 14, 15, 16, 16, 17, 17, 18, 19>>
Gen_MenuDrawSmall == <<1, 2, 5, 14>>
Gen_TickDraw == <<0, 0, 0, 0, 1, 1, 2>>
Gen_TickDrawSmall == <<0, 1>>
Gen_GetDrawSmall == <<"ok">>
Gen_GetDrawClasses == <<"ok", "err", "err_deadline", "err_canceled", "err_net">>
Gen_SetDrawClasses == <<"ok", "err", "err_deadline", "err_canceled", "err_net">>
Gen_MenuDrawClasses == <<1, 14>>
Gen_HeaderDrawClasses == <<1>>
Gen_OutcomeDrawClasses == <<"clean">>
Gen_TickDrawClasses == <<0>>
Gen_SetDrawSmall == <<"ok">>
Gen_GetDraw == <<"ok", "ok", "ok", "ok", "ok", "ok", "ok", "ok", "ok", "ok", "ok", "ok", "err", "err_deadline", "err_canceled", "err_net", "empty">>
Gen_SetDraw == <<"ok", "ok", "ok", "ok", "ok", "ok", "ok", "ok", "ok", "ok", "err", "err_deadline", "err_canceled", "err_net", "part">>
Gen_HeaderDrawSmall == <<1, 5, 9>>
Gen_OutcomeDrawSmall == <<"clean", "errs">>

Tables == [menu |-> [i \in 1..Len(Gen_Menu) |-> Gen_Menu[i]],
           headers |-> [i \in 1..Len(Gen_Headers) |-> [dirs |-> Gen_Headers[i].dirs, bad |-> Gen_Headers[i].bad,
                                                       line |-> Render(Gen_Headers[i].dirs)]]]
ASSUME PrintT(ToJson([tables |-> Tables]))

Rec(a, i, j, s) == [a |-> a, i |-> i, j |-> j, s |-> s]
\* position of entity e in the batch (ascending entity number = order of the representations)
PosIn(batch, e) == Cardinality({x \in batch : x <= e})
AppliedOf(sf) == CASE sf = "ok" -> DOMAIN items [] sf \in ErrClasses -> {} [] OTHER -> LowerHalf(DOMAIN items)

GenInit == Init /\ hist = <<>>
GenNext ==
  \/ EndReq /\ hist' = hist
  \/ \E w \in 1..Len(MenuDraw), v \in 1..Len(TickDraw) :
        StartReq(MenuDraw[w], TickDraw[v]) /\ hist' = Append(hist, Rec("start", MenuDraw[w], TickDraw[v] + 100 * v + 10000 * w, ""))
  \/ \E e \in 1..3 : Evict(e) /\ hist' = Append(hist, Rec("evict", PosIn(CurStep.batch, e), 0, ""))
  \/ \E w \in 1..Len(GetDraw) :
        Lookup(GetDraw[w]) /\ hist' = Append(hist, Rec("lookup", IF phase' = "load" THEN 0 ELSE 1,
                                                       w * 100 + Cardinality(Found(GetDraw[w])), GetDraw[w]))
  \/ \E w \in 1..Len(OutcomeDraw), v \in 1..Len(HeaderDraw) :
        Load(OutcomeDraw[w], HeaderDraw[v]) /\ hist' = Append(hist, Rec("load", HeaderDraw[v], w * 100 + v, OutcomeDraw[w]))
  \/ \E w \in 1..Len(SetDraw) :
        Flush(AppliedOf(SetDraw[w])) /\ hist' = Append(hist, Rec("flush", Cardinality(AppliedOf(SetDraw[w])), w, SetDraw[w]))
GenSpec == GenInit /\ [][GenNext]_<<vars, hist>>

Finished == phase = "idle" /\ nreq = MaxReq
Emit == IF Finished THEN PrintT(ToJson([hist |-> hist])) ELSE TRUE
GenConstraint == Emit
=============================================================================
