CONSTANTS
  MaxPieces = 5
  PieceDraw <- AllPieces
SPECIFICATION GenSpec
CONSTRAINT GenConstraint
CHECK_DEADLOCK FALSE
