CONSTANTS
  MaxPieces = 2
  PieceDraw <- AllPieces
SPECIFICATION GenSpec
CONSTRAINT GenConstraint
CHECK_DEADLOCK FALSE
