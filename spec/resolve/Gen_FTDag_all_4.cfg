CONSTANTS
  MaxN = 4
  Stratum = "all"
  PathsMaxN = 3
  DeferMaxN = 3
SPECIFICATION GenSpec
CONSTRAINT GenConstraint
CHECK_DEADLOCK FALSE
