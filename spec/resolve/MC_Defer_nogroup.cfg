CONSTANTS
  MaxD = 2
  Locked = TRUE
  CanDisconnect = FALSE
  AllGroups = FALSE
SPECIFICATION Spec
INVARIANTS HasNextFalseExactlyLast
