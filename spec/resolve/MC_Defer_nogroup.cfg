CONSTANTS
  MaxD = 2
  Locked = TRUE
  AllGroups = FALSE
SPECIFICATION Spec
INVARIANTS HasNextFalseExactlyLast
