CONSTANTS
  MaxN = 3
  Family = "all"
SPECIFICATION Spec
INVARIANTS TypeOK Theorem ExactlyOnceStarted OrderIndependent SettleIsReachable
PROPERTIES Terminates
