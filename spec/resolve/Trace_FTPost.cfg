SPECIFICATION TraceSpec
CONSTRAINT Judge
POSTCONDITION AllAccepted
CHECK_DEADLOCK FALSE
