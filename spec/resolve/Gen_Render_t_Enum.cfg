CONSTANTS
  MaxDepth = 2
  DeepAll = "thorough"
  SeedKinds = {"Enum"}
SPECIFICATION Spec
INVARIANTS SpecSelfConsistent WellTypedExact RejectsNaive RejectsSilent RejectsTooFar Emit
CHECK_DEADLOCK FALSE
