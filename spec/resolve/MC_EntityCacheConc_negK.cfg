CONSTANTS
  Menu <- Gen_Menu
  Headers <- Gen_Headers
  DefaultTTL = 2
  Pairs <- Conc_PairsSmall
  HeaderChoice <- Conc_HeaderChoice
  Bug = "key_no_sel"
SPECIFICATION GenSpec
INVARIANTS ServedTruth StoreSound
CHECK_DEADLOCK FALSE
