-------------------------- MODULE EntityCacheConc --------------------------
(* C16 -- two requests that run CONCURRENTLY on one gateway and share the     *)
(* entity cache.  Each request walks its chain of keyed entity fetches         *)
(* (Lookup -> Load -> Flush, as in EntityCache); the steps of the two          *)
(* requests interleave arbitrarily, the cache itself is linearizable (one      *)
(* GetMany / SetMany at a time).  Subgraph data is static, responses are clean, *)
(* the clock stands still; per step a Cache-Control header from HeaderChoice.   *)
(* Properties: ServedTruth (everything a request is answered with -- from the   *)
(* cache or from a subgraph -- is the true value: the responses equal the        *)
(* cache-less ones under every interleaving), StoreSound.                        *)
(* Code map: as EntityCache; the interleaving points are the calls on            *)
(* caching.Cache and the subgraph exchange of a keyed fetch.                     *)
EXTENDS EntityCacheOps
CONSTANTS Menu, Headers, DefaultTTL,
          Pairs,         \* set of << q1, q2 >> (menu indexes of the two requests)
          HeaderChoice,  \* set of header indexes a step may be answered with
          Bug            \* "none" | "partial_as_full" | "key_no_sel"
Proc == {1, 2}
VARIABLES store, q, hd, pos, phase, items, served
cvars == <<store, q, hd, pos, phase, items, served>>

KeyOf(st, e) == IF Bug = "key_no_sel" THEN <<st.tg, "*", e>> ELSE <<st.tg, st.sel, e>>
Truth(st, e) == <<st.tg, st.sel, e>>
Null == <<"null", "null", 0>>
StepOf(p) == Menu[q[p]].steps[pos[p]]
KeysOf(st) == {KeyOf(st, e) : e \in st.batch}
MaxSteps == 2

Init == /\ store = EmptyStore
        /\ \E pr \in Pairs : q = [p \in Proc |-> pr[p]]
        /\ hd \in [Proc -> [1..MaxSteps -> HeaderChoice]]
        /\ pos = [p \in Proc |-> 1]
        /\ phase = [p \in Proc |-> "lookup"]
        /\ items = [p \in Proc |-> EmptyStore]
        /\ served = [p \in Proc |-> <<>>]

Advance(p) == IF pos[p] < Len(Menu[q[p]].steps)
              THEN pos' = [pos EXCEPT ![p] = @ + 1] /\ phase' = [phase EXCEPT ![p] = "lookup"]
              ELSE pos' = pos /\ phase' = [phase EXCEPT ![p] = "done"]

Lookup(p) ==
  /\ phase[p] = "lookup"
  /\ LET st == StepOf(p)
         found == Live(store, 0, KeysOf(st))
         hit == IF Bug = "partial_as_full" THEN found # {} ELSE FullHit(found, KeysOf(st))
     IN IF hit
        THEN /\ served' = [served EXCEPT ![p] = Append(@, [e \in st.batch |-> IF KeyOf(st, e) \in found THEN store[KeyOf(st, e)].val ELSE Null])]
             /\ Advance(p)
        ELSE /\ phase' = [phase EXCEPT ![p] = "load"] /\ UNCHANGED <<pos, served>>
  /\ UNCHANGED <<store, q, hd, items>>

Load(p) ==
  /\ phase[p] = "load"
  /\ LET st == StepOf(p)
         h == Headers[hd[p][pos[p]]]
     IN /\ served' = [served EXCEPT ![p] = Append(@, [e \in st.batch |-> Truth(st, e)])]
        /\ IF CollectAllowed(200, TRUE, h.dirs, h.bad, DefaultTTL)
           THEN /\ items' = [items EXCEPT ![p] = [k \in KeysOf(st) |-> [val |-> Truth(st, CHOOSE e \in st.batch : KeyOf(st, e) = k),
                                                                        ttl |-> Lifetime(h.dirs, DefaultTTL)]]]
                /\ phase' = [phase EXCEPT ![p] = "flush"] /\ pos' = pos
           ELSE items' = items /\ Advance(p)
  /\ UNCHANGED <<store, q, hd>>

Flush(p) ==
  /\ phase[p] = "flush"
  /\ store' = Put(store, 0, items[p], DOMAIN items[p])
  /\ items' = [items EXCEPT ![p] = EmptyStore]
  /\ Advance(p)
  /\ UNCHANGED <<q, hd, served>>

Step(p) == Lookup(p) \/ Load(p) \/ Flush(p)
Next == \E p \in Proc : Step(p)
Spec == Init /\ [][Next]_cvars
AllDone == \A p \in Proc : phase[p] = "done"

\* every value a request was answered with is the true value of (target, selection, entity)
ServedTruth == \A p \in Proc : \A i \in 1..Len(served[p]) :
                  \A e \in DOMAIN served[p][i] : served[p][i][e] = Truth(Menu[q[p]].steps[i], e)
StoreSound == \A k \in DOMAIN store : store[k].val = k
=============================================================================
