CONSTANTS
  Menu <- MC_MenuSmall
  Headers <- MC_Headers
  Outcomes <- MC_Outcomes
  DefaultTTL = 2
  MaxReq = 2
  MaxTick = 1
  GetFaults = TRUE
  SetFaults = "three"
  MaxEvict = 1
  TTLSlack = TRUE
  Bug = "none"
SPECIFICATION Spec
INVARIANTS CacheTransparent StoreSound
PROPERTIES StoredOnlyIfAllowed
CHECK_DEADLOCK FALSE
