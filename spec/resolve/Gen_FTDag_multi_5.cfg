CONSTANTS
  MaxN = 5
  Stratum = "multi"
  PathsMaxN = 5
  DeferMaxN = 4
SPECIFICATION GenSpec
CONSTRAINT GenConstraint
CHECK_DEADLOCK FALSE
