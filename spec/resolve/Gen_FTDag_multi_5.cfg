CONSTANTS
  MaxN = 5
  Stratum = "multi"
  PathsMaxN = 5
SPECIFICATION GenSpec
CONSTRAINT GenConstraint
CHECK_DEADLOCK FALSE
