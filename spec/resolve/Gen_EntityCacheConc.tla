------------------------ MODULE Gen_EntityCacheConc ------------------------
(* Generator / model-checking instance of EntityCacheConc over the real menu: *)
(* every behaviour = configuration (two queries, header per step) + the        *)
(* interleaving of the steps (sched: one process number per Lookup / Load /     *)
(* Flush) + the predicted hit (1) / miss (0) of every lookup.                   *)
EXTENDS EntityCacheConc, EntityCacheMenu, Json
VARIABLES sched, kinds, hits
\* pairs that overlap in entities but differ in representation set / selection / argument value, incl. two-step chains
Conc_Pairs == {<<1, 1>>, <<1, 5>>, <<5, 1>>, <<1, 8>>, <<8, 6>>, <<1, 2>>, <<14, 1>>, <<14, 15>>, <<3, 4>>, <<16, 17>>, <<16, 18>>}
Conc_PairsSmall == {<<1, 1>>, <<1, 8>>, <<14, 1>>, <<16, 17>>}
Conc_HeaderChoice == {1, 11}     \* public, max-age=2  |  no header

GenInit == Init /\ sched = <<>> /\ kinds = <<>> /\ hits = [p \in Proc |-> <<>>]
GenNext == \E p \in Proc :
             /\ Step(p)
             /\ sched' = Append(sched, p)
             /\ kinds' = Append(kinds, phase[p])
             /\ hits' = IF phase[p] = "lookup" THEN [hits EXCEPT ![p] = Append(@, IF phase'[p] = "load" THEN 0 ELSE 1)] ELSE hits
GenSpec == GenInit /\ [][GenNext]_<<cvars, sched, kinds, hits>>
Emit == IF AllDone
        THEN PrintT(ToJson([conc |-> 1, q1 |-> q[1], q2 |-> q[2], h1 |-> hd[1], h2 |-> hd[2], sched |-> sched, kinds |-> kinds,
                            hits1 |-> hits[1], hits2 |-> hits[2]]))
        ELSE TRUE
GenConstraint == Emit
=============================================================================
