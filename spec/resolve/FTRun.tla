------------------------------- MODULE FTRun -------------------------------
(* C08 part (b): execution of a fetch tree by resolve.Loader at the grain of   *)
(* the observable points of one request f (hooks of build tag verif in         *)
(* resolve/loader.go and the harness-side data source gate):                   *)
(*                                                                             *)
(*   1 ld.prepare   preparePhase entered, data lock not yet requested          *)
(*   2 ld.prepared  [db] items selected; the input is rendered under the lock  *)
(*   3 ld.load      lock released, loadPhase entered                           *)
(*   4 ds.load      the data source is invoked (the request is "issued")       *)
(*   5 ld.loaded    the data source returned                                   *)
(*   6 ld.merging   [db] mergePhase holds the data lock                        *)
(*   7 ld.merged    [db] response merged into the shared tree                  *)
(*                                                                             *)
(* The data lock is observable in two ways: ld.merging .. ld.merged of one      *)
(* request lie strictly inside its [db] section (lock), and the scheduler can  *)
(* keep a request parked INSIDE a [db] section (hold .. unhold, recorded by    *)
(* the driver while the request is parked): nothing that needs the lock may    *)
(* happen in between.  (ld.prepared has no closing point, the unlock after it  *)
(* is not observable, so outside a hold it does not occupy the lock here.)     *)
(* Faults: a request whose data source fails (ld.loaded with b = 1; the        *)
(* errored-fetch bookkeeping before that point is a [db] section) is merged as *)
(* an error and belongs to `bad`; a request that reads from a bad request is   *)
(* not issued at all (ld.prepare, then ld.skipped [db], ph = 8) and is bad     *)
(* itself - so the transitive dependants of a failed request never run, and    *)
(* nothing else may be skipped.                                                *)
(* The state is one record s = [st, ph, lock, held, seen, bad]; a point is an  *)
(* function with a guard so that the generator (which composes points into     *)
(* schedule steps) and the trace specification (one event = one point) use     *)
(* literally the same definitions.  Execution order between requests comes     *)
(* from FetchTree (Settle / CanActivate / CanComplete).                        *)
EXTENDS FetchTree

LeafIds(t) == Range(LeafIdSeq(t))
S0(t) == [st   |-> Settle(t, [p \in Paths(t) |-> "idle"]),
          ph   |-> [f \in LeafIds(t) |-> 0],
          lock |-> 0, held |-> 0,
          seen |-> [f \in LeafIds(t) |-> {}],
          bad  |-> {}]

Active(t, s, f) == s.st[PathOf(t, f)] = "active"

\* 1: any request may show up at any time - whether it was ALLOWED to is decided by DepsRespected
CanEnter(s, f) == s.ph[f] = 0
EnterEff(s, f) == [s EXCEPT !.ph[f] = 1]
\* 2: inside the data lock; what the request reads is fixed here
CanPrepared(s, f) == s.ph[f] = 1 /\ s.lock = 0 /\ s.held = 0
PreparedEff(t, D, s, f) ==
  [s EXCEPT !.ph[f] = 2, !.st[PathOf(t, f)] = "started",
            !.seen[f] = {d \in D[f] : MergedIn(t, s.st, d)}]
\* 3
CanLoad(s, f) == s.ph[f] = 2 /\ s.held # f
LoadEff(s, f) == [s EXCEPT !.ph[f] = 3]
\* 4 / 5
CanDs(s, f) == s.ph[f] = 3
DsEff(s, f) == [s EXCEPT !.ph[f] = 4]
\* err: the data source failed; recording that (recordErroredFetchID) takes the data lock before ld.loaded fires
CanLoaded(s, f, err) == s.ph[f] = 4 /\ (err => s.lock = 0 /\ s.held = 0)
LoadedEff(s, f, err) == [s EXCEPT !.ph[f] = 5, !.bad = IF err THEN @ \cup {f} ELSE @]
\* ld.skipped [db]: not issued because a request it reads from failed or was skipped itself; nothing else is ever skipped
CanSkipped(D, s, f) == s.ph[f] = 1 /\ s.lock = 0 /\ s.held = 0 /\ D[f] \cap s.bad # {}
SkippedEff(t, s, f) ==
  [s EXCEPT !.ph[f] = 8, !.bad = @ \cup {f},
            !.st = Settle(t, [s.st EXCEPT ![PathOf(t, f)] = "done"])]
\* 6
CanMerging(s, f) == s.ph[f] = 5 /\ s.lock = 0 /\ s.held = 0
MergingEff(s, f) == [s EXCEPT !.ph[f] = 6, !.lock = f]
\* 7: merged; whoever waited for it (g.Wait, the next child of a Sequence) proceeds
CanMerged(s, f) == s.ph[f] = 6 /\ s.lock = f /\ s.held # f
MergedEff(t, s, f) ==
  [s EXCEPT !.ph[f] = 7, !.lock = 0,
            !.st = Settle(t, [s.st EXCEPT ![PathOf(t, f)] = "done"])]

\* the scheduler keeps f parked at ld.prepared / ld.merging, i.e. inside the [db] section
CanHold(s, f) == s.ph[f] \in {2, 6} /\ s.held = 0
HoldEff(s, f) == [s EXCEPT !.held = f]
CanUnhold(s, f) == s.held = f
UnholdEff(s, f) == [s EXCEPT !.held = 0]

\* ---- properties (state predicates over t, D, s) ---------------------------------------------
\* the C08 invariant: prepared => every request it reads from has been merged
\* (merged = completed AND merged successfully: a failed or skipped request never counts)
DepsRespected(t, D, s) == \A f \in LeafIds(t) : s.ph[f] \in 2..7 => \A d \in D[f] \cap LeafIds(t) : s.ph[d] = 7 /\ d \notin s.bad
SawAllDeps(t, D, s)    == \A f \in LeafIds(t) : s.ph[f] \in 2..7 => s.seen[f] = D[f] \cap LeafIds(t)
Finished(t, s)         == \A f \in LeafIds(t) : s.ph[f] \in {7, 8}
=============================================================================
