------------------------------ MODULE MC_Authz ------------------------------
(* Model check of the Authz reference model: over a small abstract response  *)
(* tree (object, list of objects, abstract type with two runtime variants),   *)
(* every assignment of non-null flags, every Deny set with <= MaxDeny         *)
(* families, both authorizer modes and both operation kinds, the reference    *)
(* execution satisfies the four properties (so they are consistent) and the   *)
(* negative configurations show that they are not vacuous.                    *)
EXTENDS Authz
CONSTANTS Faithful, MaxDeny
VARIABLES nnA, deny, mode, kind, chosen
vars == <<nnA, deny, mode, kind, chosen>>

Fams == {"Q.a", "Q.b", "A.x", "A.l", "I.z", "A.u", "T1.p", "T2.q"}
MLeaf(key, fam, nn) == [key |-> key, fam |-> fam, rc |-> fam, name |-> key, nn |-> <<nn>>, leaf |-> TRUE, obj |-> [v |-> <<>>]]
MObj(key, fam, nn, obj) == [key |-> key, fam |-> fam, rc |-> fam, name |-> key, nn |-> nn, leaf |-> FALSE, obj |-> obj]
Shape(n) ==
  [v |-> << [types |-> <<"Query">>, fields |-> <<
       MObj("a", "Q.a", <<n[1]>>, [v |-> << [types |-> <<"A">>, fields |-> <<
            MLeaf("x", "A.x", n[2]),
            MObj("l", "A.l", <<n[3], n[4]>>, [v |-> << [types |-> <<"I">>, fields |-> << MLeaf("z", "I.z", n[5]) >>] >>]),
            MObj("u", "A.u", <<FALSE>>, [v |-> << [types |-> <<"T1">>, fields |-> << MLeaf("p", "T1.p", n[6]) >>],
                                                  [types |-> <<"T2">>, fields |-> << MLeaf("q", "T2.q", FALSE) >>] >>])
          >>] >>]),
       MLeaf("b", "Q.b", FALSE) >>] >>]
Base ==
  AzO(<<"a", "b">>,
      << AzO(<<"x", "l", "u">>,
             << AzS("X"),
                AzL(<< AzO(<<"z">>, <<AzS("Z1")>>), AzO(<<"z">>, <<AzS("Z2")>>) >>),
                AzO(<<"__typename", "p">>, <<AzS("T1"), AzS("P")>>) >>),
         AzS("B") >>)

\* two levels so that TLC's workers share the evaluation: the flags are chosen in Init, the rest in one step
Init == /\ nnA \in [1..6 -> BOOLEAN]
        /\ deny = {}
        /\ mode = "post"
        /\ kind = "query"
        /\ chosen = FALSE
Next == /\ ~chosen
        /\ chosen' = TRUE
        /\ nnA' = nnA
        /\ deny' \in {d \in SUBSET Fams : Cardinality(d) <= MaxDeny}
        /\ mode' \in {"post", "batch"}
        /\ kind' \in {"query", "mutation"}
Spec == Init /\ [][Next]_vars

S == Shape(nnA)
\* Faithful = FALSE: a model without authorization (must violate NoDeniedValue)
Data == IF Faithful THEN ExecData(S, Base, deny) ELSE Base
Pos == Positions(S, Data)
BasePos == Positions(S, Base)
Errs == ExecErrs(BasePos, deny)
Reqs == << [kind |-> kind, roots |-> <<"Q.a", "Q.b">>],
           [kind |-> "query", roots |-> <<"A.l">>],
           [kind |-> "query", roots |-> <<"T1.p", "T2.q">>],
           [kind |-> kind, roots |-> <<"Q.b">>] >>
Sent == {i \in DOMAIN Reqs : SentByModel(Reqs[i], deny, mode)}

Inv_NoDeniedValue == NoDeniedValue(Pos, deny)
Inv_NullPropagates == NullConsistent(Pos)
Inv_DenialReported == DenialReported(Pos, BasePos, deny, Errs, TRUE, FALSE)
Inv_PrefetchRule == \A i \in Sent : ReqAllowed(Reqs[i], deny, mode)
\* the model skips nothing the rule does not ask for
Inv_SkipsOnlyDenied == \A i \in DOMAIN Reqs : i \notin Sent => \E j \in DOMAIN Reqs[i].roots : Reqs[i].roots[j] \in deny
\* executing the result again changes nothing; nothing allowed and reachable is lost
Inv_Fixpoint == AzSame(ExecData(S, Data, deny), Data)
Inv_Undetermined == AzIsObj(Data) => AzUndetObj(S, Data) = 0
\* negative (must be violated): nulls only at denied positions, i.e. no propagation ever happens
Neg_NeverPropagates == \A p \in Pos : p.null => p.fam \in deny
\* negative (must be violated): no request is ever skipped
Neg_AlwaysSent == Sent = DOMAIN Reqs
=============================================================================
