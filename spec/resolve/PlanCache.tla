------------------------------ MODULE PlanCache ------------------------------
(* C09 - Planning is deterministic; caching and plan optimizations are       *)
(* transparent.                                                              *)
(*                                                                           *)
(* Two layers in one module:                                                 *)
(*                                                                           *)
(*  (A) the ABSTRACTION the property states: the response to request r is    *)
(*      Fresh(r) - a function of what GraphQL says the answer depends on     *)
(*      (selection shape, argument VALUE, skip/include TRUTH VALUES) and of   *)
(*      nothing else: not of the variable NAMES, not of literal-vs-variable, *)
(*      not of the operation name, not of fragments-vs-inline, not of other  *)
(*      operations in the document, not of the option set O, not of the plan *)
(*      cache.  A one-state abstraction: no history variable appears in it.  *)
(*                                                                           *)
(*  (B) a model of the ENGINE (execution/engine/execution_engine.go):        *)
(*      normalize -> Key -> plan cache (LRU abstracted to a set with          *)
(*      nondeterministic eviction) -> Hit | Miss(plan) -> resolve the plan   *)
(*      with the per-request context (variable values, remap table).         *)
(*      Transparent == the engine's response is Fresh(r) in every reachable  *)
(*      state, for every history and every option set: engine [= abstraction.*)
(*      Two negative controls (Bake, KeyDropsDirs) model the defect classes  *)
(*      the check must be sensitive to; TLC must reject them.                *)
(*                                                                           *)
(* The request alphabet is a catalog of operation SHAPES over the            *)
(* federationtesting supergraph (concrete texts: checks/c09.py MENU) times   *)
(* the dimensions along which two requests are "the same operation":         *)
(*   nm  variable naming scheme        src  argument given as variable /     *)
(*   val argument value                     literal / variable default        *)
(*   dir skip/include truth values     ds   directive argument variable/lit. *)
(*   op  operation name (0 = anonymous) fr  inline / named fragment / typed  *)
(*   mo  a second, unselected operation      inline fragment                 *)
(*       in the document                                                     *)
EXTENDS Integers, Sequences, FiniteSets, TLC

CONSTANTS NShapes,      \* shapes 1..NShapes of the catalog are used
          Nms, Srcs, Dirs, DSrcs, Ops, Frs, Mos,   \* dimension domains (subsets of the full ones)
          WithInvalid,  \* BOOLEAN: include the ill-typed variable value
          MaxLen,       \* histories up to this length
          Capacity,     \* plan cache capacity (eviction above it)
          OptionSets,   \* set of option sets O (bit masks 0..15)
          Bake,         \* negative control: per-request state is stored on the cached plan
          KeyDropsDirs  \* negative control: the cache key ignores the skip/include decision

Shapes == 1..NShapes
Invalid == 9

\* ------------------------------------------------------------------ catalog (mirrored by checks/c09.py)
\* 1 tp    topProducts(first: ARG){upc name @skip price reviews @include {body author{username}}}   products -> reviews
\* 2 me    me{id username @skip reviews @include {body product{upc name price}}}                    accounts -> reviews -> products
\* 3 iu    interfaceUnion(which: ARG){__typename ...on A{name} ...on B{name}}                       accounts, enum argument
\* 4 hist  histories{...on Purchase{product{upc name} quantity} ...on Sale{product{upc price @skip name} rating @include}}
\*                                                                         duplicate / mergeable entity fetches (dedup, multi-fetch)
\* 5 mix   me{..reviews @include{..product{..}}} topProducts(first: ARG){..author{username realName @skip}..} cat{name}
\*                                                                         3 subgraphs, 3 waves (multi-fetch, DAG scheduling)
\* 6 min1  four aliased otherInterfaces{...} with one repeated selection set (minification applies)
\* 7 min2  two different repeated selection sets on the same type at the same depth (minification applies)
\* 8 rv    me{reviews{body author{id username} product{upc reviews{body author{id username}}}}} topProducts{...} (minification + entity fetches)
\* 9 cat   cat{name}                                                       unrelated, single subgraph
\* Shapes 10.. belong to a SECOND CONFIGURATION (harness/internal/planfed: hand-written supergraph; the property
\* quantifies over configurations, a history stays on one engine = one configuration):
\* 10 ptitle  me{id name title uuid}             title is reachable over two EQUALLY SHORT key chains (bridge-one | bridge-two)
\* 11 pitems  items{owner{name} ...on Book{owner{name}}}     abstract list; unscoped + type-scoped duplicate entity fetch
\* 12 pitems2 items{id ...on Film{minutes owner{name title}} owner{name title}}     scoped first, chains below a list
\* 13 preq    a{x} b{y}                          two @requires dependencies from different subgraphs into one subgraph
\* 14 madd    mutation addReview(authorID:"1234", upc:"top-1", review: ARG){body author{id username} product{upc name}}
\*            (configuration 1) changes the state of the reviews subgraph: later answers depend on the mutations before them
\* 15 tpdefer topProducts(first: ARG){upc name ... @defer {reviews{body author{username}}}}   incremental delivery (merged)
\* 16 pecho   echo(filter: {kind: ARG, min: 1, owner: {id: "7"}, tags: ["x", ARG]}, n: $direct)   (configuration 2)
\*            input-object argument with a NESTED variable next to a direct one; the subgraph echoes what it received
\* 17 pmeta   echo(filter:{kind:"k"}, n: $direct) me @meta(in: {tags: ["t", ARG], nested: {value: ARG}}) {id name}   (configuration 2)
\*            a variable nested TWO levels deep in the literal of a custom directive's argument (directive arguments are not
\*            extracted), after a direct variable that is visited earlier
Cfg(s) == IF s \in {10, 11, 12, 13, 16, 17} THEN 2 ELSE 1
IsMutation(s) == s = 14
ArgKind(s) == CASE s \in {1, 5, 15} -> "int" [] s = 3 -> "enum" [] s = 14 -> "str" [] s \in {16, 17} -> "nested" [] OTHER -> "none"
HasDir(s) == s \in {1, 2, 4, 5}
NVal(s) == CASE s \in {1, 5, 14, 15, 16, 17} -> 3 [] s = 3 -> 2 [] OTHER -> 1

HasVars(r) == \/ ArgKind(r.s) # "none" /\ r.src \in {"var", "dflt"}
              \/ HasDir(r.s) /\ r.ds = "var"
              \/ r.s \in {16, 17}                          \* the direct variable is always there

WellFormed(r) ==
  /\ r.s \in Shapes /\ r.nm \in Nms /\ r.src \in Srcs /\ r.dir \in Dirs /\ r.ds \in DSrcs
  /\ r.op \in Ops /\ r.fr \in Frs /\ r.mo \in Mos
  /\ IF ArgKind(r.s) = "none"
       THEN r.src = "var" /\ r.val = 0
       ELSE \/ r.val \in 0..(NVal(r.s) - 1)
            \/ WithInvalid /\ r.val = Invalid /\ r.src = "var"
  /\ ~HasDir(r.s) => (r.dir = 0 /\ r.ds = "var")
  /\ ~HasVars(r) => r.nm = 0
  /\ r.mo = 1 => r.op # 0

Base(s) == [s |-> s, nm |-> 0, src |-> "var", val |-> 0, dir |-> 0, ds |-> "var", op |-> 1, fr |-> 0, mo |-> 0]

\* requests one rewrite step away from p: the same operation with ONE dimension changed (rename the variables,
\* literal <-> variable <-> default, another value, another skip/include truth value, another operation name,
\* fragments <-> inline, add/remove an unrelated operation), p itself (repeat), or an unrelated operation of the
\* same configuration.
Rewrites(p) ==
  LET c == {[p EXCEPT !.nm = x] : x \in Nms} \cup {[p EXCEPT !.src = x] : x \in Srcs}
           \cup {[p EXCEPT !.val = x] : x \in (0..2) \cup {Invalid}} \cup {[p EXCEPT !.dir = x] : x \in Dirs}
           \cup {[p EXCEPT !.ds = x] : x \in DSrcs} \cup {[p EXCEPT !.op = x] : x \in Ops}
           \cup {[p EXCEPT !.fr = x] : x \in Frs} \cup {[p EXCEPT !.mo = x] : x \in Mos}
           \cup {Base(s) : s \in {x \in Shapes \ {p.s} : Cfg(x) = Cfg(p.s)}}
  IN {r \in c : WellFormed(r)}

\* ------------------------------------------------------------------ (A) the abstraction
\* What the response may depend on.  An ill-typed variable value is answered with an error that names the
\* client's variable, hence nm is part of the class in that case only.
Fresh(r) == [s |-> r.s, val |-> r.val, dir |-> r.dir, bad |-> IF r.val = Invalid THEN r.nm + 1 ELSE 0]
\* With mutations in the alphabet the answer also depends on the state of the subgraphs = the mutations executed before
\* on this engine (db: sequence of their values): the reference is a fresh engine that replays the same mutations.
FreshIn(r, db) == [f |-> Fresh(r), db |-> db]
DbAfter(r, db) == IF IsMutation(r.s) /\ r.val # Invalid THEN Append(db, r.val) ELSE db

\* ------------------------------------------------------------------ (B) the engine
\* Normalization (astnormalization + variables_mapper): fragments inlined, literals extracted into variables,
\* variables renamed canonically, other operations removed; skip/include are DECIDED with the request's truth
\* values and removed (so the decision is part of the normalized operation); a variable default is moved into the
\* variables like a literal; the operation name stays in the document.  (Measured on all 7275 menu requests: the
\* engine's printed normalized operations are in bijection with the values of Norm.)
\* Arguments of a custom directive are NOT extracted: a literal there stays in the document (shape 17).
Norm(r) == [s |-> r.s, op |-> r.op, dir |-> r.dir, lit |-> IF r.s = 17 /\ r.src = "lit" THEN r.val + 1 ELSE 0]
Key(r) == IF KeyDropsDirs THEN [Norm(r) EXCEPT !.dir = 0] ELSE Norm(r)
\* per-request state (resolve.Context: Variables, RemapVariables)
Ctx(r) == [val |-> r.val, nm |-> r.nm]
\* plan.Planner + postprocess under option set o: a function of (o, normalized operation) - PlanDeterministic
PlanOf(o, n) == [o |-> o, n |-> n]
\* resolving a plan with a context; the option set only changes HOW the data is fetched
Exec(p, c) == [s |-> p.plan.n.s, dir |-> p.plan.n.dir, val |-> IF Bake THEN p.baked.val ELSE c.val, bad |-> 0]

VARIABLES opts,     \* the option set of this engine
          cache,    \* set of entries [key, plan, baked]
          n,        \* requests served so far
          ok,       \* the last response was the fresh one (history variable of the property)
          lastHit   \* the last request was served from the cache
vars == <<opts, cache, n, ok, lastHit>>

Init == /\ opts \in OptionSets
        /\ cache = {}
        /\ n = 0
        /\ ok = TRUE /\ lastHit = FALSE

Lookup(k) == {e \in cache : e.key = k}

\* rejected before the cache is consulted (variablesvalidation.ValidateWithRemap); the error names the client's variable
Reject(r) == /\ r.val = Invalid
             /\ ok' = TRUE /\ lastHit' = FALSE
             /\ UNCHANGED cache

Hit(r) == /\ r.val # Invalid
          /\ Lookup(Key(r)) # {}
          /\ \E e \in Lookup(Key(r)) : ok' = (Exec(e, Ctx(r)) = Fresh(r))
          /\ lastHit' = TRUE
          /\ UNCHANGED cache

\* a miss plans the operation; the LRU may drop any entries to make room (nondeterministic eviction).
\* (A traced request - repaired engine - plans afresh and bypasses the cache: a Miss whose entry is evicted at once.)
\* Two concurrent requests for one key may both miss (no single-flight in getCachedPlan): the later Add wins.
Miss(r) == /\ r.val # Invalid
           /\ LET e == [key |-> Key(r), plan |-> PlanOf(opts, Norm(r)), baked |-> Ctx(r)]
              IN /\ ok' = (Exec(e, Ctx(r)) = Fresh(r))
                 /\ \E keep \in SUBSET {x \in cache : x.key # Key(r)} :
                      /\ Cardinality(keep) < Capacity
                      /\ cache' = keep \cup {e}
           /\ lastHit' = FALSE

\* sequential engine: a miss only happens when the key is absent
SeqMiss(r) == Lookup(Key(r)) = {} /\ Miss(r)

Request(r) == /\ n < MaxLen
              /\ n' = n + 1
              /\ UNCHANGED opts
              /\ (Reject(r) \/ Hit(r) \/ SeqMiss(r))

\* every well-formed request of the alphabet
Alphabet == {r \in [s : Shapes, nm : Nms, src : Srcs, val : (0..2) \cup {Invalid}, dir : Dirs, ds : DSrcs,
                    op : Ops, fr : Frs, mo : Mos] : WellFormed(r)}

Next == \E r \in Alphabet : Request(r)
Spec == Init /\ [][Next]_vars

\* ------------------------------------------------------------------ properties
TypeOK == /\ opts \in OptionSets /\ n \in 0..MaxLen /\ ok \in BOOLEAN /\ lastHit \in BOOLEAN
          /\ Cardinality(cache) <= Capacity
          /\ \A e \in cache : e.plan = PlanOf(opts, e.plan.n)

\* the property: what the client receives is the fresh answer, whatever the history, the cache and O
Transparent == ok

\* at most one plan per key
KeyFunctional == \A e, f \in cache : e.key = f.key => e = f

\* a cached plan was planned from an operation with the same normalized form as every request it serves
HitServesSameNorm == \A e \in cache : KeyDropsDirs \/ e.key = e.plan.n

\* nothing can be served from an empty cache
NoHitOnEmpty == [][cache = {} => ~lastHit']_vars
=============================================================================
