CONSTANTS
  MaxP = 1
SPECIFICATION Spec
CONSTRAINT Emit
CHECK_DEADLOCK FALSE
