---------------------------- MODULE MC_FetchExec ----------------------------
(* Model checking of FetchExec: every Sequence/Parallel tree over <= MaxN     *)
(* fetches (up to renaming of the fetches), every dependency relation that is  *)
(* ordered by the tree (at most MaxDeps direct dependencies per fetch), every  *)
(* assignment of a failure class to at most MaxFaults fetches, every           *)
(* interleaving.  Ents = the entities a fetch is sent with fault-free.          *)
EXTENDS FetchExec
CONSTANTS MaxN, MaxDeps, Classes, MaxFaults, Ents

\* Trees over the ids lo..lo+n-1 up to renaming: the left subtree takes the first k ids.
\* (Dependencies and faults are enumerated for every id, so nothing is lost by fixing the labelling.)
RECURSIVE Trees(_, _)
Trees(lo, n) ==
  IF n = 1 THEN {Leaf(lo)}
  ELSE UNION {{SeqN(<<a, b>>) : a \in Trees(lo, k), b \in Trees(lo + k, n - k)} : k \in 1..(n - 1)}
       \cup UNION {{ParN(<<a, b>>) : a \in Trees(lo, k), b \in Trees(lo + k, n - k)} : k \in 1..(n - 1)}

\* one tree per distinct precedence relation (Seq(a,Seq(b,c)) and Seq(Seq(a,b),c) behave identically)
Canon(n) == LET T  == Trees(1, n)
                PS == {Prec(t) : t \in T}
            IN {CHOOSE t \in T : Prec(t) = P : P \in PS}

DepChoices(n) == {S \in SUBSET (1..n) : Cardinality(S) <= MaxDeps}
InstsOf(n, t) ==
  LET P == Prec(t) IN
  {[n |-> n, tree |-> t, deps |-> d, fault |-> fl, e0 |-> [f \in 1..n |-> Ents]] :
     d \in {d \in [1..n -> DepChoices(n)] : \A f \in 1..n : \A g \in d[f] : <<g, f>> \in P},
     fl \in {fl \in [1..n -> Classes] : Cardinality({f \in 1..n : fl[f] # "ok"}) <= MaxFaults}}
InstsN(n) == UNION {InstsOf(n, t) : t \in Canon(n)}

MCInit == /\ inst \in UNION {InstsN(n) : n \in 1..MaxN}
          /\ InitState
Terminating == AllFetchesDone /\ UNCHANGED vars
MCNext == Next \/ Terminating
MCSpec == MCInit /\ [][MCNext]_vars /\ WF_vars(Next)
\* negative control (the model must reject it): a loader that drops a fetch as soon as ANY fetch errored
SkipAny(f) == /\ CanStart(f) /\ errored # {}
              /\ st' = [st EXCEPT ![f] = "skipped"] /\ errored' = errored \cup {f}
              /\ UNCHANGED <<inst, ents, sent, rep>>
BrokenSpec == MCInit /\ [][MCNext \/ \E f \in Ids : SkipAny(f)]_vars
\* structural sanity of the generated instances
InstWellFormed == WellFormed(inst.tree, 1..inst.n, inst.deps)
=============================================================================
