--------------------------- MODULE EntityCacheMenu ---------------------------
(* C16 -- the REAL request menu: queries against the federationtesting         *)
(* supergraph (plus Product.label(lang:), added by the driver) abstracted to    *)
(* their chains of keyed entity fetches [tg, sel, batch], and the Cache-Control *)
(* denotations the history generators draw from.  Shared by Gen_EntityCache and *)
(* Gen_EntityCacheConc.                                                          *)
EXTENDS CacheControl

S(tg, sel, batch) == [tg |-> tg, sel |-> sel, batch |-> batch]
R(q, steps) == [q |-> q, vars |-> "", steps |-> steps]
RV(q, v, steps) == [q |-> q, vars |-> v, steps |-> steps]
PP == "products:Product"
RP == "reviews:Product"
AU == "accounts:User"
RU == "reviews:User"
\* entity numbers: products top-1..3 = 1..3, users 1234 = 1, 7777 = 2.
\* topProducts returns top-1, top-2 (first:1 -> top-1); me = user 1234 wrote reviews of top-1, top-2;
\* me.history = Purchase(top-1), Sale(top-2), Purchase(top-3); the review of top-3 is by user 7777.
Gen_Menu == <<
  R("{me{reviews{product{name}}}}",                                         <<S(PP, "name", {1, 2})>>),
  R("{me{reviews{product{price}}}}",                                        <<S(PP, "price", {1, 2})>>),
  R("{topProducts(first:1){reviews{product{name}}}}",                       <<S(RP, "rp", {1}), S(PP, "name", {1})>>),
  R("{topProducts{reviews{product{name}}}}",                                <<S(RP, "rp", {1, 2}), S(PP, "name", {1, 2})>>),
  R("{me{history{... on Sale{product{name}}}}}",                            <<S(PP, "name", {2})>>),
  R("{me{history{... on Purchase{product{name}}}}}",                        <<S(PP, "name", {1, 3})>>),
  R("{me{history{... on Purchase{product{price}}}}}",                       <<S(PP, "price", {1, 3})>>),
  R("{me{history{... on Purchase{product{name}} ... on Sale{product{name}}}}}", <<S(PP, "name", {1, 2, 3})>>),
  R("{me{history{... on Purchase{product{reviews{author{history{__typename}}}}}}}}", <<S(RP, "rah", {1, 3}), S(AU, "h", {1, 2})>>),
  R("{topProducts{reviews{author{history{__typename}}}}}",                  <<S(RP, "rah", {1, 2}), S(AU, "h", {1})>>),
  R("{topProducts(first:1){reviews{product{price}}}}",                      <<S(RP, "rp", {1}), S(PP, "price", {1})>>),
  R("{me{reviews{product{name price}}}}",                                   <<S(PP, "nameprice", {1, 2})>>),
  \* me resolved by accounts first: the reviews subgraph is entered through a SINGLE entity fetch (resolve.EntityFetch)
  R("{me{username reviews{body}}}",                                         <<S(RU, "rb", {1})>>),
  R("{me{username reviews{product{name}}}}",                                <<S(RU, "rpu", {1}), S(PP, "name", {1, 2})>>),
  R("{me{username reviews{product{price}}}}",                               <<S(RU, "rpu", {1}), S(PP, "price", {1, 2})>>),
  \* an entity field with an ARGUMENT (Product.label(lang:), added to the supergraph by the driver): the upstream query text is
  \* the same for every argument value, the value travels as a variable behind the representations; literal and variable
  \* spellings of the same value share their entries, different values must not
  R("{me{reviews{product{label(lang:\"de\")}}}}",                           <<S(PP, "label-de", {1, 2})>>),
  R("{me{reviews{product{label(lang:\"en\")}}}}",                           <<S(PP, "label-en", {1, 2})>>),
  RV("query($l:String!){me{reviews{product{label(lang:$l)}}}}", "{\"l\":\"de\"}", <<S(PP, "label-de", {1, 2})>>),
  RV("query($l:String!){me{history{... on Sale{product{label(lang:$l)}}}}}", "{\"l\":\"en\"}", <<S(PP, "label-en", {2})>>)
>>

H(dirs) == [dirs |-> dirs, bad |-> FALSE]
pub == Dir("public", NoArg)
Gen_Headers == <<
  H(<<pub, Dir("max-age", 2)>>),
  H(<<pub>>),
  H(<<pub, Dir("s-maxage", 1), Dir("max-age", 3)>>),
  H(<<Dir("max-age", 1), pub, Dir("s-maxage", 3)>>),
  H(<<pub, Dir("max-age", 1)>>),
  H(<<pub, Dir("must-revalidate", NoArg), Dir("max-age", 3)>>),
  H(<<Dir("max-age", 2)>>),
  H(<<pub, Dir("no-store", NoArg)>>),
  H(<<pub, Dir("private", NoArg), Dir("max-age", 2)>>),
  H(<<Dir("no-cache", NoArg), pub, Dir("max-age", 2)>>),
  H(<<>>),
  H(<<pub, Dir("max-age", 0)>>),
  H(<<pub, Dir("max-age", 1), Dir("max-age", 3)>>),
  H(<<Dir("private", NoArg)>>),
  H(<<pub, Dir("s-maxage", 0), Dir("max-age", 3)>>)
>>
=============================================================================
