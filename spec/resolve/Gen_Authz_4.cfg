CONSTANTS
  MaxP = 4
SPECIFICATION Spec
CONSTRAINT Emit
CHECK_DEADLOCK FALSE
