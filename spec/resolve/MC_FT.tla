------------------------------- MODULE MC_FT -------------------------------
(* C08 model checking: for EVERY Sequence/Parallel tree over <= MaxN fetches   *)
(* and every interleaving of the loader's steps,                               *)
(*        WellFormed(tree, deps)  =>  [] DepsRespected                         *)
(* (a request is prepared only after every request it depends on was merged),  *)
(* every request is prepared exactly once, the run terminates, and what every  *)
(* request saw (hence the final response) is the same in every behaviour.      *)
EXTENDS FetchTree
CONSTANTS TransitiveSkip, \* TRUE = the code (a skipped request counts as failed); FALSE only in the negative configuration
          FaultMaxN, \* trees over <= FaultMaxN fetches are also run with ONE failing request (every choice), 0 = fault-free only
          MaxN,      \* trees over 1..n for every n <= MaxN
          Family     \* "max": deps = the most demanding well-formed graph of the tree
                     \* "all": every graph over the ids (well-formed or not; the theorem is an implication)
                     \* "mix": "max" for every tree plus "few" for the trees over <= 3 fetches (quick tier, one run)
                     \* "few": every graph with at most two edges (both sides of the theorem are conjunctions over edges)
                     \* "bad": a well-formed graph plus ONE edge the tree does not order (negative test)
VARIABLES tree, deps, st, seen, nstart,
          terr,      \* the request whose data source fails (0 = none)
          bad        \* failed or skipped requests
vars == <<tree, deps, st, seen, nstart, terr, bad>>

Min(S) == CHOOSE x \in S : \A y \in S : x <= y

RECURSIVE T(_, _), Prod(_, _), OrdParts(_), UnordParts(_)
\* ordered partitions of S (sequences of disjoint non-empty blocks covering S)
OrdParts(S) == IF S = {} THEN {<<>>}
               ELSE UNION {{<<B>> \o r : r \in OrdParts(S \ B)} : B \in (SUBSET S) \ {{}}}
\* partitions of S, blocks listed by their smallest element
UnordParts(S) == IF S = {} THEN {<<>>}
                 ELSE UNION {{<<B>> \o r : r \in UnordParts(S \ B)} : B \in {X \in SUBSET S : Min(S) \in X}}
\* all sequences of trees, one per block, whose roots are not of kind `no`
Prod(blocks, no) == IF blocks = <<>> THEN {<<>>}
                    ELSE {<<t>> \o r : t \in T(Head(blocks), no), r \in Prod(Tail(blocks), no)}
\* all trees over leaf set S whose root kind differs from `no` (alternating = one tree per series-parallel order)
T(S, no) ==
  (IF Cardinality(S) = 1 THEN {Leaf(CHOOSE x \in S : TRUE)} ELSE {})
  \cup (IF Cardinality(S) > 1 /\ no # "S" THEN {SeqN(cs) : cs \in UNION {Prod(b, "S") : b \in {q \in OrdParts(S) : Len(q) >= 2}}} ELSE {})
  \cup (IF Cardinality(S) > 1 /\ no # "P" THEN {ParN(cs) : cs \in UNION {Prod(b, "P") : b \in {q \in UnordParts(S) : Len(q) >= 2}}} ELSE {})

Ids == Members(tree)
MaxDeps(t) == [f \in Members(t) |-> {d \in Members(t) : <<d, f>> \in Prec(t)}]
\* only the DIRECT dependencies of MaxDeps (which is transitively closed): a dependant of a dependant does not depend on the root
RedDeps(t) == LET D == MaxDeps(t) IN [f \in Members(t) |-> {d \in D[f] : ~\E e \in D[f] \ {d} : d \in D[e]}]
DepFamily(t) ==
  CASE Family = "max" -> {MaxDeps(t)}
    [] Family = "maxred" -> {MaxDeps(t), RedDeps(t)}
    [] Family = "all" -> [Members(t) -> SUBSET Members(t)]
    [] Family = "mix" -> {MaxDeps(t), RedDeps(t)} \cup
                         (IF Cardinality(Members(t)) <= 3
                          THEN {g \in [Members(t) -> SUBSET Members(t)] : Cardinality({e \in Members(t) \X Members(t) : e[1] \in g[e[2]]}) <= 2}
                          ELSE {})
    [] Family = "few" -> {g \in [Members(t) -> SUBSET Members(t)] : Cardinality({e \in Members(t) \X Members(t) : e[1] \in g[e[2]]}) <= 2}
    [] Family = "bad" -> {[MaxDeps(t) EXCEPT ![e[2]] = @ \cup {e[1]}] :
                            e \in {x \in Members(t) \X Members(t) : x[1] # x[2] /\ x \notin Prec(t)}}

Init ==
  /\ \E n \in 1..MaxN : tree \in T(1..n, "none")
  /\ deps \in DepFamily(tree)
  /\ st = [p \in Paths(tree) |-> "idle"]
  /\ seen = [f \in Members(tree) |-> {}]
  /\ nstart = [f \in Members(tree) |-> 0]
  /\ terr \in {0} \cup (IF Cardinality(Members(tree)) <= FaultMaxN /\ deps \in {MaxDeps(tree), RedDeps(tree)} THEN Members(tree) ELSE {})
  /\ bad = {}

Activate(p) == CanActivate(tree, st, p) /\ st' = [st EXCEPT ![p] = "active"] /\ UNCHANGED <<tree, deps, seen, nstart, terr, bad>>
Complete(p) == CanComplete(tree, st, p) /\ st' = [st EXCEPT ![p] = "done"] /\ UNCHANGED <<tree, deps, seen, nstart, terr, bad>>
\* preparePhase [db]: a request that reads from a failed / skipped request is not issued at all and counts as failed
\* itself (shouldSkipErroredDependencyLocked); otherwise the input is rendered from the data merged so far
Start(p) ==
  /\ At(tree, p).k = "F" /\ st[p] = "active"
  /\ LET f == At(tree, p).id IN
       IF deps[f] \cap bad # {}
       THEN /\ st' = [st EXCEPT ![p] = "done"]
            /\ bad' = IF TransitiveSkip THEN bad \cup {f} ELSE bad
            /\ UNCHANGED <<seen, nstart>>
       ELSE /\ st' = [st EXCEPT ![p] = "started"]
            /\ seen' = [seen EXCEPT ![f] = {d \in deps[f] : MergedIn(tree, st, d)}]
            /\ nstart' = [nstart EXCEPT ![f] = @ + 1]
            /\ bad' = bad
  /\ UNCHANGED <<tree, deps, terr>>
\* loadPhase returned (a failure is recorded under the lock) and mergePhase [db] done
Finish(p) ==
  /\ At(tree, p).k = "F" /\ st[p] = "started"
  /\ st' = [st EXCEPT ![p] = "done"]
  /\ bad' = IF At(tree, p).id = terr THEN bad \cup {terr} ELSE bad
  /\ UNCHANGED <<tree, deps, seen, nstart, terr>>

Next == \E p \in Paths(tree) : Activate(p) \/ Complete(p) \/ Start(p) \/ Finish(p)
Terminating == AllDone(tree, st) /\ UNCHANGED vars
Spec == Init /\ [][Next \/ Terminating]_vars /\ WF_vars(Next)

TypeOK == st \in [Paths(tree) -> {"idle", "active", "started", "done"}]
Issued(f) == nstart[f] > 0
\* issued => every request it reads from completed AND was merged (a failed or skipped request never counts)
DepsRespected == \A f \in Ids : Issued(f) => \A d \in deps[f] \cap Ids : MergedIn(tree, st, d) /\ d \notin bad
SawAllDeps == \A f \in Ids : Issued(f) => seen[f] = deps[f]
WF == WellFormed(tree, Ids, deps)
\* the failed request and everything that transitively reads from it
RECURSIVE Dependants(_, _)
Dependants(S, k) == IF k = 0 THEN S ELSE Dependants(S \cup {f \in Ids : deps[f] \cap S # {}}, k - 1)
Broken == IF terr = 0 THEN {} ELSE Dependants({terr}, Cardinality(Ids))
\* exactly the transitive dependants of the failed request are never issued, everything else exactly once
FaultOK == /\ bad \subseteq Broken
           /\ \A f \in Ids : nstart[f] <= 1 /\ (f \in Broken \ {terr} => nstart[f] = 0)
           /\ AllDone(tree, st) => /\ bad = Broken
                                   /\ \A f \in Ids : nstart[f] = IF f \in Broken \ {terr} THEN 0 ELSE 1
\* the theorem of C08
Theorem == WF => (DepsRespected /\ SawAllDeps /\ FaultOK)
ExactlyOnceStarted == /\ \A f \in Ids : nstart[f] <= 1
                      /\ (AllDone(tree, st) /\ terr = 0) => \A f \in Ids : nstart[f] = 1
\* the "response" (what every issued request read, which requests ran) of a finished run does not depend on the interleaving
OrderIndependent == (WF /\ AllDone(tree, st)) => /\ \A f \in Ids : Issued(f) => seen[f] = deps[f]
                                                   /\ bad = Broken
\* the big-step closure used by the generator / trace specs only performs steps of this spec
SettleIsReachable == \A p \in Paths(tree) : Settle(tree, st)[p] # st[p] => st[p] \in {"idle", "active"}
Terminates == <>AllDone(tree, st)
\* used with Family = "bad": must be VIOLATED (the structural order is not more than what executions guarantee)
Unconditional == DepsRespected
=============================================================================
