CONSTANTS
  Menu <- Gen_Menu
  Headers <- Gen_Headers
  DefaultTTL = 2
  Pairs <- Conc_PairsSmall
  HeaderChoice <- Conc_HeaderChoice
  Bug = "partial_as_full"
SPECIFICATION GenSpec
INVARIANTS ServedTruth StoreSound
CHECK_DEADLOCK FALSE
