CONSTANTS
  NShapes = 3
  Nms = {0, 1}
  Srcs = {"var", "lit", "dflt"}
  Dirs = {0, 1}
  DSrcs = {"var", "lit"}
  Ops = {0, 1}
  Frs = {0, 1}
  Mos = {0}
  WithInvalid = TRUE
  MaxLen = 3
  Capacity = 2
  OptionSets = {0, 15}
  Bake = TRUE
  KeyDropsDirs = FALSE
SPECIFICATION MCSpec
INVARIANTS TypeOK Transparent KeyFunctional HitServesSameNorm
PROPERTIES NoHitOnEmpty
