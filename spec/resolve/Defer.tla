------------------------------- MODULE Defer -------------------------------
(* C10 - execution of a @defer plan                                          *)
(*   v2/pkg/engine/postprocess/build_defer_tree.go   BuildTree               *)
(*   v2/pkg/engine/resolve/resolve.go  ResolveGraphQLDeferResponse,           *)
(*        resolveDeferTree (walk), resolveDeferSingle (Fetch / Begin / Flush)  *)
(*   v2/pkg/engine/resolve/resolvable.go ResolveDeferBatch / ResolveDeferError *)
(*        (frame content, outstanding counter), liveChildDescriptors           *)
(*   v2/pkg/engine/resolve/defer_tree.go pruneDeadDefers                       *)
(*                                                                           *)
(* Defers are 1..n in document order (a nested defer has a larger id than its  *)
(* parent), parent[i] = 0 for top-level.  Nondeterministic environment, fixed  *)
(* at Init: anchor[i] (the object the fragment is mounted on is non-null when  *)
(* its parent is rendered), outcome[i] of the group's fetch + render:          *)
(*   "ok"     data delivered in an incremental item                            *)
(*   "bubble" no deliverable data (null bubbled to the fragment root / auth /   *)
(*            render error): completed-with-errors, children may still be live  *)
(*   "hard"   the fetch phase fails hard: ResolveDeferError                    *)
(*                                                                           *)
(* Actions (A.5 of DESIGN.md):                                                *)
(*   Initial        fetch + render of the primary response, flush, seed counter *)
(*   StartFetch(g)  the walk reaches Single(g)                  (unlocked)      *)
(*   FetchDone(g)   the group's subgraph responses arrived       (unlocked)     *)
(*   Begin(g)       db.Lock(); merge; render frame into the writer [db]        *)
(*   Flush(g)       writer.Flush(); db.Unlock(); return live children [db]     *)
(*   Complete       deferred writer.Complete() after the walk joined           *)
(* Locked = FALSE removes the lock (negative control: frames interleave).      *)
(* AllGroups = FALSE lets a descriptor exist without a fetch group (negative   *)
(* control: announced, counted, never completed).                              *)
(***************************************************************************)
EXTENDS DeferStream

CONSTANTS MaxD, Locked, AllGroups,
          CanDisconnect  \* TRUE: the environment may take the client away while the walk is running

VARIABLES
  n,           \* number of defer descriptors
  parent,      \* [1..n -> 0..n-1]
  anchor,      \* [1..n -> BOOLEAN]
  outcome,     \* [1..n -> {"ok","bubble","hard"}]
  grp,         \* [1..n -> BOOLEAN]  descriptor has a DeferFetchGroup (is in the tree)
  st,          \* [1..n -> {"idle","fetching","fetched","writing","done"}]
  live,        \* [0..n -> SUBSET 1..n]  children announced by the frame of i (0 = initial frame)
  lock,        \* 0 | holder of the DataBuffer lock
  outstanding, \* the counter of resolve.go / resolvable.go
  buf,         \* groups whose frame bytes sit in the writer since the last Flush (sequence)
  staged,      \* [1..n -> frame]  the frame a group rendered in Begin
  frames,      \* flushed frames
  delivered,   \* sequence of fragment ids whose data reached the client (0 = primary data)
  phase,       \* "init" | "walk" | "complete"
  gone,        \* the client disconnected: request context cancelled, every writer call fails
  cutLen       \* number of frames delivered when it happened

vars == <<n, parent, anchor, outcome, grp, st, live, lock, outstanding, buf, staged, frames, delivered, phase, gone, cutLen>>

Ids == 1..n
Ch(p) == {i \in Ids : parent[i] = p}
\* children that are part of the execution tree
GCh(p) == {i \in Ch(p) : grp[i]}

Tree == BuildTree(parent, {i \in Ids : grp[i]})

(* resolveDeferTree + pruneDeadDefers: which Single may start now / is the walk over *)
RECURSIVE Startable(_, _)
Startable(t, liveSet) ==
  CASE t.k = "S" -> IF t.g \in liveSet /\ st[t.g] = "idle" THEN {t.g} ELSE {}
    [] t.k = "Q" -> LET p == t.c[1].g IN
                    IF p \notin liveSet THEN {}
                    ELSE IF st[p] = "idle" THEN {p}
                    ELSE IF st[p] = "done" THEN Startable(t.c[2], live[p])
                    ELSE {}
    [] t.k = "P" -> UNION {Startable(t.c[i], liveSet) : i \in DOMAIN t.c}
    [] OTHER -> {}

RECURSIVE Joined(_, _)
Joined(t, liveSet) ==
  \* after a disconnect a Sequence returns the parent's error without starting the children; a Single that was
  \* never started stays idle
  CASE t.k = "S" -> t.g \notin liveSet \/ st[t.g] = "done" \/ (gone /\ st[t.g] = "idle")
    [] t.k = "Q" -> LET p == t.c[1].g IN p \notin liveSet \/ (gone /\ st[p] = "idle") \/ (st[p] = "done" /\ Joined(t.c[2], live[p]))
    [] t.k = "P" -> \A i \in DOMAIN t.c : Joined(t.c[i], liveSet)
    [] OTHER -> TRUE

----------------------------------------------------------------------------
Forests(k) == {p \in [1..k -> 0..(k - 1)] : \A i \in 1..k : p[i] < i}

Init ==
  /\ n \in 1..MaxD
  /\ parent \in Forests(n)
  /\ anchor \in [1..n -> BOOLEAN]
  /\ outcome \in [1..n -> {"ok", "bubble", "hard"}]
  /\ grp \in IF AllGroups THEN {[i \in 1..n |-> TRUE]} ELSE [1..n -> BOOLEAN]
  /\ st = [i \in 1..n |-> "idle"]
  /\ live = [i \in 0..n |-> {}]
  /\ lock = 0
  /\ outstanding = 0
  /\ buf = <<>>
  /\ staged = [i \in 1..n |-> <<>>]
  /\ frames = <<>>
  /\ delivered = <<>>
  /\ phase = "init"
  /\ gone = FALSE
  /\ cutLen = 0

Frame(pend, inc, compl, hn) == [ok |-> TRUE, pending |-> pend, inc |-> inc, completed |-> compl, hasNext |-> hn]

\* resolve.go 573-605 (render with liveChildDescriptors(0), flush) and 619-632 (seed the counter)
Initial ==
  /\ phase = "init"
  /\ LET top == {i \in Ch(0) : anchor[i]} IN
       /\ live' = [live EXCEPT ![0] = top]
       /\ frames' = <<Frame(SetToSeq(top), <<>>, <<>>, top # {})>>
       /\ outstanding' = Cardinality(top)
  /\ delivered' = <<0>>
  /\ phase' = "walk"
  /\ UNCHANGED <<n, parent, anchor, outcome, grp, st, lock, buf, staged, gone, cutLen>>

StartFetch(g) ==
  /\ phase = "walk" /\ ~gone
  /\ g \in Startable(Tree, live[0])
  /\ st' = [st EXCEPT ![g] = "fetching"]
  /\ UNCHANGED <<n, parent, anchor, outcome, grp, live, lock, outstanding, buf, staged, frames, delivered, phase, gone, cutLen>>

FetchDone(g) ==
  /\ st[g] = "fetching"
  /\ st' = [st EXCEPT ![g] = "fetched"]
  /\ UNCHANGED <<n, parent, anchor, outcome, grp, live, lock, outstanding, buf, staged, frames, delivered, phase, gone, cutLen>>

\* ResolveDeferBatch / ResolveDeferError: counter, frame content
Begin(g) ==
  /\ st[g] = "fetched" /\ ~gone
  /\ IF Locked THEN lock = 0 /\ lock' = g ELSE UNCHANGED lock
  /\ LET kids == IF outcome[g] = "hard" THEN {} ELSE {c \in Ch(g) : anchor[c]}
         out  == outstanding + Cardinality(kids) - 1
     IN /\ outstanding' = out
        /\ live' = [live EXCEPT ![g] = kids]
        /\ staged' = [staged EXCEPT ![g] =
              Frame(SetToSeq(kids), IF outcome[g] = "ok" THEN <<g>> ELSE <<>>, <<g>>, out # 0)]
  /\ buf' = Append(buf, g)
  /\ st' = [st EXCEPT ![g] = "writing"]
  /\ UNCHANGED <<n, parent, anchor, outcome, grp, frames, delivered, phase, gone, cutLen>>

\* the chunk that is committed is whatever sits in the writer
Flush(g) ==
  /\ st[g] = "writing"
  /\ frames' = IF gone THEN frames   \* Flush fails, the frame is lost
                ELSE Append(frames,
                       IF buf = <<g>> THEN staged[g]
                       ELSE [ok |-> FALSE, pending |-> <<>>, inc |-> <<>>, completed |-> <<>>, hasNext |-> TRUE])
  /\ delivered' = IF outcome[g] = "ok" /\ ~gone THEN Append(delivered, g) ELSE delivered
  /\ buf' = <<>>
  /\ IF Locked THEN lock' = 0 ELSE UNCHANGED lock
  /\ st' = [st EXCEPT ![g] = "done"]
  /\ UNCHANGED <<n, parent, anchor, outcome, grp, live, outstanding, staged, phase, gone, cutLen>>

\* environment: the client goes away while the deferred part is running
Disconnect ==
  /\ CanDisconnect /\ phase = "walk" /\ ~gone
  /\ gone' = TRUE /\ cutLen' = Len(frames)
  /\ UNCHANGED <<n, parent, anchor, outcome, grp, st, live, lock, outstanding, buf, staged, frames, delivered, phase>>

\* a group whose fetch ended with the cancelled context (or that had not rendered yet) gives up WITHOUT touching the writer
Abort(g) ==
  /\ gone /\ st[g] \in {"fetching", "fetched"}
  /\ st' = [st EXCEPT ![g] = "done"]
  /\ live' = [live EXCEPT ![g] = {}]
  /\ UNCHANGED <<n, parent, anchor, outcome, grp, lock, outstanding, buf, staged, frames, delivered, phase, gone, cutLen>>

Complete ==
  /\ phase = "walk"
  /\ Joined(Tree, live[0])
  /\ phase' = "complete"
  /\ UNCHANGED <<n, parent, anchor, outcome, grp, st, live, lock, outstanding, buf, staged, frames, delivered, gone, cutLen>>

Group(g) == StartFetch(g) \/ FetchDone(g) \/ Begin(g) \/ Flush(g) \/ Abort(g)
Next == Initial \/ Complete \/ Disconnect \/ \E g \in Ids : Group(g)
Done == phase = "complete" /\ UNCHANGED vars

Spec == Init /\ [][Next \/ Done]_vars /\ WF_vars(Next)

----------------------------------------------------------------------------
TypeOK ==
  /\ n \in 1..MaxD /\ parent \in Forests(n)
  /\ st \in [1..n -> {"idle", "fetching", "fetched", "writing", "done"}]
  /\ lock \in 0..n /\ outstanding \in Int /\ phase \in {"init", "walk", "complete"}

\* after a disconnect only the safety part of the protocol can be demanded of the delivered prefix
Verdict == IF phase = "complete" /\ ~gone THEN FinalVerdict(frames) ELSE PrefixVerdict(frames)

\* the clauses of the property, judged by the acceptor on the frames emitted so far
FramesAtomic              == "FramesAtomic" \notin Verdict
CompletedOnceAfterPending == "CompletedOnceAfterPending" \notin Verdict
NothingForUnannounced     == "NothingForUnannounced" \notin Verdict
HasNextFalseExactlyLast   == "HasNextFalseExactlyLast" \notin Verdict

\* meaning of the counter: announced-but-not-completed, as soon as a frame is rendered
Open == LET s == StreamRun(StreamInit, frames) IN s.announced \ s.completed
CounterIsOpen == (phase # "init" /\ buf = <<>> /\ ~gone) => outstanding = Cardinality(Open)
CounterNonNegative == outstanding >= 0
\* the frame that makes the counter 0 is the last one
ZeroIsLast == (phase # "init" /\ buf = <<>> /\ outstanding = 0 /\ ~gone) => \A g \in Ids : st[g] \in {"idle", "done"} /\ Startable(Tree, live[0]) = {}

\* model-level reconstruction: every fragment whose chain of anchors is alive and whose ancestors
\* rendered is delivered exactly once, nothing else is (what the non-deferred response contains)
RECURSIVE Reach(_)
Reach(i) == i = 0 \/ (anchor[i] /\ Reach(parent[i]) /\ (parent[i] = 0 \/ outcome[parent[i]] # "hard"))
Reconstructs ==
  (phase = "complete" /\ ~gone) =>
    /\ NoDup(delivered)
    /\ SeqRange(delivered) = {0} \cup {i \in Ids : Reach(i) /\ outcome[i] = "ok"}

\* a dead fragment is never announced nor fetched
DeadNeverRuns == \A i \in Ids : ~Reach(i) => st[i] = "idle"

\* nothing reaches the client after it disconnected
NoFrameAfterDisconnect == gone => Len(frames) = cutLen

Terminates == <>(phase = "complete")
=============================================================================
