SPECIFICATION TraceSpec
CONSTRAINT HighWater
INVARIANTS Inv_DepsRespected Inv_SawAllDeps
POSTCONDITION TraceAccepted
CHECK_DEADLOCK FALSE
