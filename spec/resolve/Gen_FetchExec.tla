---------------------------- MODULE Gen_FetchExec ----------------------------
(* Generator for C07: for every REAL plan shape exported by harness/cmd/faults  *)
(* (-mode plan; one line per operation in IOEnv.SHAPES) TLC emits every fault    *)
(* assignment F -> Kind with 1 <= |F| <= MaxF, plus "every request fails" (one   *)
(* per kind), each with completion orders of the fetches: every linear           *)
(* extension of the tree's precedence (Orders = "all", used for |F| <= OrdF) or  *)
(* the one that lets faulty fetches finish first (the order in which a failure   *)
(* can do most harm to its parallel siblings).                                   *)
EXTENDS FetchTree, Json, IOUtils
CONSTANTS MaxF, OrdF, MultiKinds
Shapes == ndJsonDeserialize(IOEnv.SHAPES)
Kinds == {"Transport", "Non2xxNonJSON", "EmptyBody", "NonJSON", "ErrorsNoData", "DataNull", "WrongEntityCount",
          "PartialData", "Non2xxJSON", "RateLimited"}

\* second = what the SECOND request on the same gateway is: the same operation again, or another operation of the menu
\* that shares a subgraph request with it (chosen by the harness; only generated for small F)
VARIABLES si, fault, order, second
gvars == <<si, fault, order, second>>

N(i) == Shapes[i].n
F(fl, n) == {f \in 1..n : fl[f] # "ok"}
Applicable(i, fl) == \A f \in 1..N(i) : fl[f] = "WrongEntityCount" => Shapes[i].entity[f] = 1
Assignments(i) ==
  {fl \in [1..N(i) -> Kinds \cup {"ok"}] :
     /\ Applicable(i, fl)
     /\ \/ Cardinality(F(fl, N(i))) = 1
        \* several simultaneous failures: kinds restricted to MultiKinds (quick: one representative per class)
        \/ /\ Cardinality(F(fl, N(i))) \in 2..MaxF
           /\ \A f \in F(fl, N(i)) : fl[f] \in MultiKinds
        \/ \E k \in Kinds \ {"WrongEntityCount"} : \A f \in 1..N(i) : fl[f] = k}

GenInit == /\ si \in 1..Len(Shapes)
           /\ fault \in Assignments(si)
           /\ order = <<>>
           /\ second \in IF Cardinality(F(fault, N(si))) <= 1 /\ Shapes[si].partner = 1 THEN {"same", "other"} ELSE {"same"}
Placed == {order[j] : j \in DOMAIN order}
Before == Prec(Shapes[si].tree)
Ready == {f \in (1..N(si)) \ Placed : \A g \in 1..N(si) : <<g, f>> \in Before => g \in Placed}
Faulty == F(fault, N(si))
Min(S) == CHOOSE x \in S : \A y \in S : x <= y
Pick == IF Cardinality(Faulty) <= OrdF /\ Cardinality(Faulty) < N(si) THEN Ready
        ELSE IF Ready \cap Faulty # {} THEN {Min(Ready \cap Faulty)} ELSE {Min(Ready)}
GenNext == /\ Ready # {}
           /\ \E f \in Pick : order' = Append(order, f)
           /\ UNCHANGED <<si, fault, second>>
GenSpec == GenInit /\ [][GenNext]_gvars
Emit == IF Len(order) = N(si)
        THEN PrintT(ToJson([op |-> Shapes[si].op, fault |-> fault, order |-> order, second |-> second]))
        ELSE TRUE
=============================================================================
