---------------------------- MODULE Gen_FetchExec ----------------------------
(* Generator for C07: for every REAL plan shape exported by harness/cmd/faults  *)
(* (-mode plan; one line per operation in IOEnv.SHAPES) TLC emits every fault    *)
(* assignment F -> Kind with 1 <= |F| <= MaxF, plus "every request fails" (one   *)
(* per kind), each with completion orders of the fetches: every linear           *)
(* extension of the tree's precedence (Orders = "all", used for |F| <= OrdF) or  *)
(* the one that lets faulty fetches finish first (the order in which a failure   *)
(* can do most harm to its parallel siblings).                                   *)
EXTENDS FetchTree, Json, IOUtils
CONSTANTS MaxF, OrdF, MultiKinds
Shapes == ndJsonDeserialize(IOEnv.SHAPES)
Kinds == {"Transport", "Non2xxNonJSON", "EmptyBody", "NonJSON", "ErrorsNoData", "DataNull", "WrongEntityCount",
          "PartialData", "Non2xxJSON", "RateLimited"}

\* second = what the SECOND request on the same gateway is: the same operation again, or another operation of the menu
\* that shares a subgraph request with it (chosen by the harness; only generated for small F)
\* variant = refinement of the kind of a single failure (the class, and therefore FetchExec, is the same; the harness
\* interprets it): the status code of Non2xxNonJSON (5xx / 3xx / 4xx), the shape of the errors array of PartialData
\* (a path-less error before / after the error that points at the hole; path null / empty) and the JSON type of the
\* "extensions" member of the errors of PartialData / ErrorsNoData.  Only for operations marked vars = 1.
VARIABLES si, fault, order, second, variant
gvars == <<si, fault, order, second, variant>>

N(i) == Shapes[i].n
F(fl, n) == {f \in 1..n : fl[f] # "ok"}
NVar(k) == CASE k = "PartialData" -> 10 [] k = "ErrorsNoData" -> 6 [] k = "Non2xxNonJSON" -> 5 [] OTHER -> 1
Variants(i, fl) == IF Cardinality(F(fl, N(i))) = 1 /\ Shapes[i].vars = 1
                   THEN 0..(NVar(fl[CHOOSE f \in F(fl, N(i)) : TRUE]) - 1) ELSE {0}
Applicable(i, fl) == \A f \in 1..N(i) : fl[f] = "WrongEntityCount" => Shapes[i].entity[f] = 1
Assignments(i) ==
  {fl \in [1..N(i) -> Kinds \cup {"ok"}] :
     /\ Applicable(i, fl)
     /\ \/ Cardinality(F(fl, N(i))) = 1
        \* several simultaneous failures: kinds restricted to MultiKinds (quick: one representative per class)
        \/ /\ Cardinality(F(fl, N(i))) \in 2..MaxF
           /\ \A f \in F(fl, N(i)) : fl[f] \in MultiKinds
        \/ \E k \in Kinds \ {"WrongEntityCount"} : \A f \in 1..N(i) : fl[f] = k}

GenInit == /\ si \in 1..Len(Shapes)
           /\ fault \in Assignments(si)
           /\ order = <<>>
           /\ variant \in Variants(si, fault)
           /\ second \in IF Cardinality(F(fault, N(si))) <= 1 /\ Shapes[si].partner = 1 /\ variant = 0 THEN {"same", "other"} ELSE {"same"}
Placed == {order[j] : j \in DOMAIN order}
Before == Prec(Shapes[si].tree)
Ready == {f \in (1..N(si)) \ Placed : \A g \in 1..N(si) : <<g, f>> \in Before => g \in Placed}
Faulty == F(fault, N(si))
Min(S) == CHOOSE x \in S : \A y \in S : x <= y
Pick == IF Cardinality(Faulty) <= OrdF /\ Cardinality(Faulty) < N(si) /\ variant = 0 THEN Ready
        ELSE IF Ready \cap Faulty # {} THEN {Min(Ready \cap Faulty)} ELSE {Min(Ready)}
GenNext == /\ Ready # {}
           /\ \E f \in Pick : order' = Append(order, f)
           /\ UNCHANGED <<si, fault, second, variant>>
GenSpec == GenInit /\ [][GenNext]_gvars
Emit == IF Len(order) = N(si)
        THEN PrintT(ToJson([op |-> Shapes[si].op, fault |-> fault, order |-> order, second |-> second, variant |-> variant]))
        ELSE TRUE
=============================================================================
