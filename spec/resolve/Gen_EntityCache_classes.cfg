CONSTANTS
  Menu <- Gen_Menu
  Headers <- Gen_Headers
  Outcomes = {"clean", "errs", "s500", "s404", "s300", "null1", "dead"}
  HeaderDraw <- Gen_HeaderDrawClasses
  OutcomeDraw <- Gen_OutcomeDrawClasses
  MenuDraw <- Gen_MenuDrawClasses
  TickDraw <- Gen_TickDrawClasses
  GetDraw <- Gen_GetDrawClasses
  SetDraw <- Gen_SetDrawClasses
  DefaultTTL = 2
  MaxReq = 1
  MaxTick = 2
  GetFaults = TRUE
  SetFaults = "three"
  MaxEvict = 0
  TTLSlack = FALSE
  Bug = "none"
SPECIFICATION GenSpec
CONSTRAINT GenConstraint
CHECK_DEADLOCK FALSE
