CONSTANTS
  Faithful = FALSE
  MaxDeny = 1
SPECIFICATION Spec
INVARIANTS Inv_NoDeniedValue
CHECK_DEADLOCK FALSE
