CONSTANTS
  MaxN = 2
  MaxDeps = 2
  Classes = {"ok", "Transport", "ErrorsNoData"}
  MaxFaults = 2
  Ents = {1, 2}
SPECIFICATION BrokenSpec
INVARIANTS Independent
