CONSTANTS
  MaxN = 2
  MaxDeps = 2
  Classes = {"ok", "Transport", "ErrorsNoData"}
SPECIFICATION BrokenSpec
INVARIANTS Independent
