CONSTANTS
  MaxN = 2
  MaxDeps = 2
  Classes = {"ok", "Transport", "ErrorsNoData", "PartialData", "Non2xxJSON"}
  MaxFaults = 2
  Ents = {1, 2}
SPECIFICATION BrokenSpec
INVARIANTS Independent
