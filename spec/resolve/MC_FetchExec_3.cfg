CONSTANTS
  MaxN = 3
  MaxDeps = 3
  Classes = {"ok", "Transport", "ErrorsNoData"}
  MaxFaults = 3
  Ents = {1, 2}
SPECIFICATION MCSpec
INVARIANTS TypeOK InstWellFormed NoFabrication Independent SkipJustified ErrorReportedPerFetch ErrorReported DepsSettled
PROPERTIES Terminates
