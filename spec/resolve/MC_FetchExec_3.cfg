CONSTANTS
  MaxN = 3
  MaxDeps = 3
  Classes = {"ok", "Transport", "ErrorsNoData"}
SPECIFICATION MCSpec
INVARIANTS TypeOK InstWellFormed NoFabrication Independent SkipJustified ErrorReportedPerFetch ErrorReported DepsSettled
PROPERTIES Terminates
