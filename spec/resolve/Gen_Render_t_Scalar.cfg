CONSTANTS
  MaxDepth = 2
  DeepAll = "thorough"
  SeedKinds = {"Scalar"}
SPECIFICATION Spec
INVARIANTS SpecSelfConsistent WellTypedExact RejectsNaive RejectsSilent RejectsTooFar Emit
CHECK_DEADLOCK FALSE
