CONSTANTS
  Faithful = TRUE
  MaxDeny = 2
SPECIFICATION Spec
INVARIANTS Inv_NoDeniedValue Inv_NullPropagates Inv_DenialReported Inv_PrefetchRule Inv_SkipsOnlyDenied Inv_Fixpoint Inv_Undetermined
CHECK_DEADLOCK FALSE
