CONSTANTS
  MaxD = 4
  Locked = TRUE
  CanDisconnect = FALSE
  AllGroups = TRUE
SPECIFICATION Spec
INVARIANTS TypeOK FramesAtomic CompletedOnceAfterPending NothingForUnannounced HasNextFalseExactlyLast CounterIsOpen CounterNonNegative ZeroIsLast Reconstructs DeadNeverRuns
PROPERTIES Terminates
