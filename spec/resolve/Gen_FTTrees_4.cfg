CONSTANTS
  TransitiveSkip = TRUE
  FaultMaxN = 0
  MaxN = 4
  Family = "max"
SPECIFICATION TreesSpec
CONSTRAINT EmitTree
CHECK_DEADLOCK FALSE
