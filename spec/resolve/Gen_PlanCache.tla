---------------------------- MODULE Gen_PlanCache ----------------------------
(* Generator: request histories for the plan-cache / optimization check.     *)
(* A history starts with the base form of a catalog shape; every further      *)
(* request is ONE rewrite step (PlanCache!Rewrites) away from some EARLIER    *)
(* request of the history: the same operation with renamed variables, a       *)
(* literal instead of a variable (or a default), another value, another       *)
(* skip/include truth value, another operation name, fragments instead of     *)
(* inline selections, an extra unselected operation, the identical request,   *)
(* or an unrelated operation.  hist makes every history a distinct state, so  *)
(* BFS enumerates all of them; -simulate samples longer ones.  Histories of   *)
(* length GenLen are printed together with what the engine model prescribes   *)
(* for every position (hit/miss without eviction, response class).            *)
EXTENDS PlanCache, Json
CONSTANT GenLen
VARIABLE hist
gvars == <<vars, hist>>

\* the engine variables are not used by the generator (the model's prediction is computed from hist)
GenInit == Init /\ \E s \in Shapes : hist = <<Base(s)>>
GenNext == /\ Len(hist) < GenLen
           /\ \E j \in 1..Len(hist) : \E r \in Rewrites(hist[j]) : hist' = Append(hist, r)
           /\ UNCHANGED vars
GenSpec == GenInit /\ [][GenNext]_gvars

\* the engine model's prediction for position i (sequential, no eviction)
ModelHit(h, i) == h[i].val # Invalid /\ \E j \in 1..(i - 1) : h[j].val # Invalid /\ Key(h[j]) = Key(h[i])
Emit == IF Len(hist) = GenLen
        THEN PrintT(ToJson([h |-> hist,
                            hit |-> [i \in 1..Len(hist) |-> IF ModelHit(hist, i) THEN 1 ELSE 0],
                            cls |-> [i \in 1..Len(hist) |-> Fresh(hist[i])]]))
        ELSE TRUE
GenConstraint == Emit
=============================================================================
