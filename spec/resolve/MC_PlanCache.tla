---------------------------- MODULE MC_PlanCache ----------------------------
(* Model checking of PlanCache: every history of length <= MaxLen over the   *)
(* alphabet, every option set, every eviction choice.                        *)
EXTENDS PlanCache
\* deadlock = history complete
Done == n = MaxLen /\ UNCHANGED vars
MCNext == Next \/ Done
MCSpec == Init /\ [][MCNext]_vars
=============================================================================
