SPECIFICATION TraceSpec
CONSTRAINT HighWater
POSTCONDITION TraceConsumed
CHECK_DEADLOCK FALSE
