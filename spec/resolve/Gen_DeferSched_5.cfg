CONSTANT K = 5
SPECIFICATION SchedSpec
CONSTRAINT Emit
CHECK_DEADLOCK FALSE
