CONSTANTS
  MaxF = 4
  MaxActs = 5
  MaxSub = 2
  Menus = {6, 7}
  Pin = TRUE
SPECIFICATION GenSpec
CONSTRAINT GenConstraint
CHECK_DEADLOCK FALSE
