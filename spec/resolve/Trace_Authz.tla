---------------------------- MODULE Trace_Authz ----------------------------
(* Validation of the observations recorded by harness/cmd/authz against the  *)
(* Authz relations.  The log is a sequence of lines                           *)
(*   op   : id, shape, base (payload of the operation without authorization)  *)
(*   case : id, deny <<families / coordinates>>, mode, exact, explain, cum <<payload after frame i>>,*)
(*          errs <<paths>>, reqs <<[kind, roots <<families>>]>>, orph         *)
(*          <<incremental payloads whose anchor was never delivered>>          *)
(* One line is consumed per step; `bad` is the set of properties the case     *)
(* consumed last violates.  Trace_Authz.cfg states the properties as          *)
(* invariants; Trace_Authz_report.cfg prints the verdict of every failing     *)
(* case instead of stopping at the first one (used to key the findings).      *)
EXTENDS Authz, Json, IOUtils, TLCExt
TraceLog == ndJsonDeserialize(IOEnv.TRACE)
VARIABLES l, opl, basePos, bad
tvars == <<l, opl, basePos, bad>>
Ev == TraceLog[l]

Judge(o, c, bp) ==
  LET Deny == AzRange(c.deny)
      n == Len(c.cum)
      errs == AzRange(c.errs)
      pos == [i \in 1..n |-> Positions(o.shape, c.cum[i])]
      leak == \/ \E i \in 1..n : ~NoDeniedValue(pos[i], Deny)
              \/ \E i \in DOMAIN c.orph : ~NoDeniedValue(Positions(o.shape, c.orph[i]), Deny)
      incons == \E i \in 1..n : ~NullConsistent(pos[i])
      inexact == c.exact /\ ~(n = 1 /\ ExactData(o.shape, o.base, Deny, c.cum[1]))
      unrep == n > 0 /\ ~DenialReported(pos[n], bp, Deny, errs, c.explain, c.pathless)
      sent == ~PrefetchRule(c.reqs, Deny, c.mode)
      undet == \E i \in 1..n : AzIsObj(c.cum[i]) /\ AzUndetObj(o.shape, c.cum[i]) > 0
  IN IF c.failmode THEN (IF leak THEN {"FailClosed"} ELSE {}) ELSE
     (IF leak THEN {"NoDeniedValue"} ELSE {})
     \cup (IF incons THEN {"NullPropagates"} ELSE {})
     \cup (IF inexact THEN {"NullPropagatesExact"} ELSE {})
     \cup (IF unrep THEN {"DenialReported"} ELSE {})
     \cup (IF sent THEN {"PrefetchRule"} ELSE {})
     \cup (IF undet THEN {"Undetermined"} ELSE {})

TraceInit == l = 1 /\ opl = 0 /\ basePos = {} /\ bad = {} /\ TLCSet(1, 0)
T_Op == /\ l <= Len(TraceLog)
        /\ Ev.kind = "op"
        /\ opl' = l
        /\ basePos' = Positions(Ev.shape, Ev.base)
        /\ bad' = IF AzIsObj(Ev.base) /\ AzUndetObj(Ev.shape, Ev.base) > 0 THEN {"Undetermined"} ELSE {}
        /\ l' = l + 1
T_Case == /\ l <= Len(TraceLog)
          /\ Ev.kind = "case"
          /\ opl > 0
          /\ UNCHANGED <<opl, basePos>>
          /\ bad' = Judge(TraceLog[opl], Ev, basePos)
          /\ l' = l + 1
TraceNext == T_Op \/ T_Case
TraceSpec == TraceInit /\ [][TraceNext]_tvars

Inv_NoDeniedValue == "NoDeniedValue" \notin bad
Inv_DenialReported == "DenialReported" \notin bad
Inv_NullPropagates == "NullPropagates" \notin bad /\ "NullPropagatesExact" \notin bad
Inv_PrefetchRule == "PrefetchRule" \notin bad
Inv_FailClosed == "FailClosed" \notin bad
Inv_Determined == "Undetermined" \notin bad

Report == IF bad # {} THEN PrintT(ToJson([id |-> TraceLog[l - 1].id, bad |-> bad])) ELSE TRUE
HighWater == TLCSet(1, IF l > TLCGet(1) THEN l ELSE TLCGet(1))
ReportAndHighWater == Report /\ HighWater
TraceAccepted ==
  IF TLCGet(1) = Len(TraceLog) + 1 THEN TRUE
  ELSE /\ PrintT(<<"TRACE_STUCK_AT_LINE", TLCGet(1)>>)
       /\ FALSE
=============================================================================
