SPECIFICATION TraceSpec
CONSTRAINT Report
POSTCONDITION TraceAccepted
CHECK_DEADLOCK FALSE
