----------------------------- MODULE Gen_Render -----------------------------
(* Generator state machine for C02: a state is one (plan tree, payload) pair  *)
(* for the root field "a"; transitions wrap the current pair into an object,  *)
(* a list, an abstract object (type conditions) or replace the wrapper's own  *)
(* payload by an offending one.  TLC's state graph IS the test suite: BFS to   *)
(* depth MaxDepth = every tree of that nesting depth over the node kinds x     *)
(* nullability x payload menu; -simulate walks deeper.  Every state is         *)
(* printed (Emit) as one case for harness/cmd/render, and the same run checks  *)
(* that the reference completion satisfies the relation and that the relation  *)
(* rejects the three canonical wrong renderers (non-vacuity).                  *)
EXTENDS Render, Json
CONSTANTS MaxDepth,   \* nesting depth below the root field
          DeepAll,    \* "quick": beyond depth 1 only DeepSeed seeds, QuickWraps at both levels;
                      \* "thorough": the six GraphQL leaf kinds (menu entries 1..6) get every wrap at level 1 and ThoroughWraps2 at level 2 (other seeds as quick);
                      \* "sim": every wrap at every level (simulation)
          SeedKinds   \* leaf kinds to start from (partitions the exhaustive run)
VARIABLES T, j, d, deep,   \* deep: "no" | "qw" | "full" -- which wraps may still be applied beyond depth 1
          rb               \* TRUE: the root has a second, offending chain b before a
vars == <<T, j, d, deep, rb>>

OrigKinds == {"String", "Int", "Float", "Boolean", "Enum", "Scalar"}
Kinds == <<"String", "Int", "Float", "Boolean", "Enum", "Scalar", "BigInt", "Custom",
           "StaticString", "EmptyObject", "EmptyArray", "Null">>
\* several inaccessible values, declared in non-lexicographic order (the planner keeps schema declaration order)
EnumT(n) == EnumNode(n, "Color", <<"RED", "REVIEW", "GREEN", "INTERNAL", "HID", "ARCHIVED">>, <<"REVIEW", "INTERNAL", "HID", "ARCHIVED">>)
LeafT(k, n) == CASE k = "Enum" -> EnumT(n)
                 [] k = "StaticString" -> Node(k, n, <<>>, <<>>, <<>>, "static value", <<>>, <<>>)
                 [] OTHER -> Leaf(k, n)
Str(n) == Leaf("String", n)

Good(k) == CASE k = "String" -> JS("s")
             [] k = "Int" -> JI(7)
             [] k = "Float" -> JF("1.5")
             [] k = "Boolean" -> JB(TRUE)
             [] k = "Enum" -> JS("RED")
             [] k = "Scalar" -> JS("id-1")
             [] k = "BigInt" -> JG("12345678901234567890")
             [] k = "Custom" -> JS("s")
             [] k \in ConstKinds -> JS("ignored")
\* payload menu of a leaf position: 1 absent, 2 null, 3 right kind, 4.. other right / wrong kinds
Extra(k) ==
  CASE k = "String" -> <<JI(5), JB(TRUE), JO(<<"x">>, <<JI(1)>>), JL(<<JS("q")>>), JS("")>>
    [] k = "Int" -> <<JF("1.5"), JG("2147483648"), JG("1e100"), JS("7"), JB(TRUE), JL(<<JI(1)>>), JI(2147483647), JI(0),
                      JI(-2147483647 - 1), JG("-2147483649")>>          \* the exact 32-bit boundaries: MinInt32 valid, MinInt32 - 1 not
    [] k = "Float" -> <<JS("1.5"), JB(FALSE), JO(<<>>, <<>>), JI(3), JG("1e100")>>
    [] k = "Boolean" -> <<JS("true"), JI(1), JL(<<>>), JB(FALSE)>>
    [] k = "Enum" -> <<JS("ZZ"), JS("HID"), JI(0), JB(TRUE), JO(<<"x">>, <<JI(1)>>), JS("GREEN"),
                       JS("red"), JS("Green"), JS("hid"),
                       JS("REVIEW"), JS("INTERNAL"), JS("ARCHIVED")>>   \* every inaccessible value   \* differ from a declared (valid / inaccessible) value only in letter case
    [] k = "Scalar" -> <<JI(5), JF("2.5"), JB(FALSE), JO(<<"x">>, <<JI(1)>>), JL(<<JS("q"), JNull>>)>>
    [] k = "BigInt" -> <<JI(5), JS("9"), JF("1.5")>>
    [] k = "Custom" -> <<JI(5), JO(<<"x">>, <<JI(1)>>), JS("")>>        \* the custom resolver rejects non-strings
    [] k \in ConstKinds -> <<JO(<<"x">>, <<JI(1)>>)>>
Menu(k) == <<JAbsent, JNull, Good(k)>> \o Extra(k)
\* seeds that are also wrapped beyond depth 1 when DeepAll = FALSE: the null / right / wrong-kind (number) String in both
\* nullabilities, the enum with an invalid / inaccessible value (rendered null by both walks), the Int fraction
DeepSeed(k, n, m) == \/ k = "String" /\ m \in 2..4 /\ (n => m # 3)
                     \/ k = "Enum" /\ m \in 4..5 /\ (~n => m = 5)
                     \/ k = "Int" /\ ~n /\ m = 4
                     \/ k = "Custom" /\ m = 4

RECURSIVE OkVal(_)
OkVal(N) ==
  CASE IsLeaf(N) \/ IsConst(N) -> Good(N.k)
    [] N.k = "Array" -> JL(<<OkVal(N.it[1])>>)
    [] N.k = "Object" ->
         LET fs == SelectSeq(N.fs, LAMBDA f : f.key # "__typename")
             ks == [i \in 1..Len(fs) |-> fs[i].key]
             vs == [i \in 1..Len(fs) |-> OkVal(fs[i].v)]
         IN IF IsAbstract(N) THEN JO(<<"__typename">> \o ks, <<JS(N.pt[1])>> \o vs) ELSE JO(ks, vs)

ObjT(n, fs) == ObjectNode(n, "X", <<"X">>, fs)
AbsT(n, fs) == ObjectNode(n, "I", <<"A", "AB">>, fs)   \* one type name is a prefix of the other on purpose
TypenameF == F("__typename", Str(FALSE))
\* abstract type with exactly ONE possible type that is not the type itself (single-implementer interface / single-member union)
Abs1T(n, fs) == ObjectNode(n, "I1", <<"A">>, fs)
OnA == <<"A">>
OnB == <<"AB">>

\* second chain: an offender two levels down, absorbed by the nullable head of the chain
ChainB == ObjT(TRUE, <<F("q", ObjT(FALSE, <<F("r", Str(FALSE))>>))>>)
ChainBJ == JO(<<"q">>, <<JO(<<"r">>, <<JNull>>)>>)
PonF(name, dd, names, v) == Fld(name, name, <<>>, <<[d |-> dd, names |-> names]>>, v)
NWraps == 47
WrapT(w, n, T0) ==
  CASE w \in {1, 7, 8, 9, 10} -> ObjT(n, <<F("f", T0)>>)
    [] w = 2 -> ObjT(n, <<F("e", Str(TRUE)), F("f", T0)>>)
    [] w = 3 -> ObjT(n, <<F("f", T0), F("g", Str(TRUE))>>)
    [] w = 4 -> ObjT(n, <<F("f", T0), F("g", Str(FALSE))>>)
    [] w = 5 -> ObjT(n, <<F("e", Str(FALSE)), F("f", T0)>>)
    [] w = 6 -> ObjT(n, <<Fld("f", "kf", <<>>, <<>>, T0)>>)          \* planner-generated upstream alias: response key # json key
    [] w \in 11..18 -> ArrayNode(n, T0)
    [] w = 19 -> AbsT(n, <<TypenameF, Fld("f", "f", OnA, <<>>, T0), Fld("g", "g", OnB, <<>>, Str(TRUE))>>)
    [] w \in 20..24 -> AbsT(n, <<Fld("f", "f", OnA, <<>>, T0), Fld("g", "g", OnB, <<>>, Str(TRUE))>>)
    \* the same response key on both members, aliased upstream by the planner (abstract_selection_field_alias.go)
    [] w \in 27..28 -> AbsT(n, <<Fld("f", "m_A_f", OnA, <<>>, T0), Fld("f", "m_AB_f", OnB, <<>>, Str(TRUE))>>)
    [] w \in 29..32 -> Abs1T(n, <<Fld("f", "f", OnA, <<>>, T0), F("g", Str(TRUE))>>)
    \* multi-offender sequences: whatever T0 holds is absorbed by the nullable c (33, 34: object; 35, 36: list, possibly by a
    \* nullable item) BEFORE the walk reaches the later sibling t, which is selected through a type condition
    [] w \in 33..34 -> AbsT(n, <<F("c", ObjT(TRUE, <<F("f", T0)>>)), Fld("t", "t", OnA, <<>>, Str(FALSE))>>)
    [] w \in 35..36 -> AbsT(n, <<F("c", ArrayNode(TRUE, T0)), Fld("t", "t", OnA, <<>>, Str(FALSE))>>)
    \* post-fetch authorizer: the field f is denied
    [] w = 37 -> ObjT(n, <<FldD("f", T0)>>)
    [] w = 38 -> ObjT(n, <<F("e", Str(TRUE)), FldD("f", T0), F("g", Str(FALSE))>>)
    [] w = 39 -> AbsT(n, <<[FldD("f", T0) EXCEPT !.on = OnA], Fld("g", "g", OnB, <<>>, Str(TRUE))>>)
    \* ParentOnTypeNames at depth 2, at depth 1 through a list, and combined with OnTypeNames of an inner abstract object
    [] w \in 40..41 -> AbsT(n, <<F("o", ObjT(FALSE, <<F("p", ObjT(TRUE, <<PonF("f", 2, OnA, T0), PonF("g", 2, OnB, Str(TRUE))>>))>>))>>)
    [] w = 42 -> AbsT(n, <<F("o", ArrayNode(TRUE, ObjT(TRUE, <<PonF("f", 1, OnA, T0), PonF("g", 1, OnB, Str(TRUE))>>)))>>)
    [] w = 43 -> AbsT(n, <<F("i", AbsT(TRUE, <<[PonF("f", 1, OnA, T0) EXCEPT !.on = OnA],
                                                 [PonF("g", 1, OnB, Str(TRUE)) EXCEPT !.on = OnA]>>))>>)
    \* two chains below one object: both offend, at different depths, in both orders
    [] w = 44 -> ObjT(n, <<F("f", T0), F("h", ChainB)>>)
    [] w = 45 -> ObjT(n, <<F("h", ChainB), F("f", T0)>>)
    [] w = 46 -> ObjT(n, <<F("f", T0), F("h", ObjT(FALSE, <<F("r", Str(FALSE))>>))>>)
    [] w = 47 -> ObjT(n, <<F("h", ArrayNode(FALSE, ObjT(TRUE, <<F("r", Str(FALSE))>>))), F("f", T0)>>)
    [] w \in 25..26 -> AbsT(n, <<F("o", ObjT(FALSE, <<Fld("f", "f", <<>>, <<[d |-> 1, names |-> OnA]>>, T0),
                                                       Fld("g", "g", <<>>, <<[d |-> 1, names |-> OnB]>>, Str(TRUE))>>))>>)
WrapJ(w, T0, j0) ==
  CASE w = 1 -> JO(<<"f">>, <<j0>>)
    [] w = 2 -> JO(<<"e", "f">>, <<JS("s"), j0>>)
    [] w = 3 -> JO(<<"f", "g">>, <<j0, JS("s")>>)
    [] w = 4 -> JO(<<"f", "g">>, <<j0, JNull>>)                      \* a second offender after the wrapped one
    [] w = 5 -> JO(<<"e", "f">>, <<JNull, j0>>)                      \* ... before it
    [] w = 6 -> JO(<<"kf">>, <<j0>>)
    [] w = 7 -> JAbsent
    [] w = 8 -> JNull
    [] w = 9 -> JL(<<JI(1)>>)                                        \* list for object
    [] w = 10 -> JS("x")
    [] w = 11 -> IF j0.t = "x" THEN JL(<<>>) ELSE JL(<<j0>>)
    [] w = 12 -> JL(<<OkVal(T0), j0>>)
    [] w = 13 -> JL(<<j0, OkVal(T0)>>)
    [] w = 14 -> JAbsent
    [] w = 15 -> JNull
    [] w = 16 -> JO(<<"x">>, <<JI(1)>>)                              \* object for list
    [] w = 17 -> JS("x")
    [] w = 18 -> JL(<<OkVal(T0), OkVal(T0)>>)
    [] w = 19 -> JO(<<"__typename", "f", "g">>, <<JS("A"), j0, JS("s")>>)
    [] w = 20 -> JO(<<"__typename", "f", "g">>, <<JS("A"), j0, JS("s")>>)
    [] w = 21 -> JO(<<"__typename", "f", "g">>, <<JS("AB"), j0, JS("s")>>)   \* f not selected for AB: whatever f holds is irrelevant
    [] w = 22 -> JO(<<"__typename", "f", "g">>, <<JS("C"), OkVal(T0), JS("s")>>)   \* unknown __typename
    [] w = 23 -> JO(<<"f", "g">>, <<OkVal(T0), JS("s")>>)                    \* missing __typename
    [] w = 24 -> JO(<<"__typename", "f", "g">>, <<JI(5), OkVal(T0), JS("s")>>)   \* __typename of the wrong kind
    [] w = 25 -> JO(<<"__typename", "o">>, <<JS("A"), JO(<<"f", "g">>, <<j0, JS("s")>>)>>)
    [] w = 26 -> JO(<<"__typename", "o">>, <<JS("AB"), JO(<<"f", "g">>, <<j0, JS("s")>>)>>)
    [] w = 27 -> JO(<<"__typename", "m_A_f", "m_AB_f">>, <<JS("A"), j0, JS("s")>>)
    [] w = 28 -> JO(<<"__typename", "m_A_f", "m_AB_f">>, <<JS("AB"), j0, JS("s")>>)
    [] w = 29 -> JO(<<"__typename", "f", "g">>, <<JS("A"), j0, JS("s")>>)
    [] w = 30 -> JO(<<"f", "g">>, <<OkVal(T0), JS("s")>>)                          \* missing __typename
    [] w = 31 -> JO(<<"__typename", "f", "g">>, <<JB(TRUE), OkVal(T0), JS("s")>>)   \* __typename of the wrong kind
    [] w = 32 -> JO(<<"__typename", "f", "g">>, <<JS("I1"), OkVal(T0), JS("s")>>)   \* the abstract type's own name: not a possible type
    [] w = 33 -> JO(<<"__typename", "c", "t">>, <<JS("A"), JO(<<"f">>, <<j0>>), JNull>>)      \* second offender: null in String!
    [] w = 34 -> JO(<<"__typename", "c", "t">>, <<JS("A"), JO(<<"f">>, <<j0>>), JS("s")>>)    \* ... or well-typed: must be rendered
    [] w = 35 -> JO(<<"__typename", "c", "t">>, <<JS("A"), JL(<<j0, OkVal(T0)>>), JNull>>)
    [] w = 36 -> JO(<<"__typename", "c", "t">>, <<JS("A"), JL(<<OkVal(T0), j0>>), JI(5)>>)    \* second offender ill-typed
    [] w = 37 -> JO(<<"f">>, <<j0>>)
    [] w = 38 -> JO(<<"e", "f", "g">>, <<JS("s"), j0, JS("s")>>)
    [] w = 39 -> JO(<<"__typename", "f", "g">>, <<JS("A"), j0, JS("s")>>)
    [] w = 40 -> JO(<<"__typename", "o">>, <<JS("A"), JO(<<"p">>, <<JO(<<"f", "g">>, <<j0, JS("s")>>)>>)>>)
    [] w = 41 -> JO(<<"__typename", "o">>, <<JS("AB"), JO(<<"p">>, <<JO(<<"f", "g">>, <<j0, JS("s")>>)>>)>>)
    [] w = 42 -> JO(<<"__typename", "o">>, <<JS("A"), JL(<<JO(<<"f", "g">>, <<j0, JS("s")>>), JO(<<"f", "g">>, <<OkVal(T0), JS("s")>>)>>)>>)
    [] w = 43 -> JO(<<"__typename", "i">>, <<JS("A"), JO(<<"__typename", "f", "g">>, <<JS("A"), j0, JS("s")>>)>>)
    [] w = 44 -> JO(<<"f", "h">>, <<j0, ChainBJ>>)
    [] w = 45 -> JO(<<"h", "f">>, <<ChainBJ, j0>>)
    [] w = 46 -> JO(<<"f", "h">>, <<j0, JO(<<"r">>, <<JNull>>)>>)
    [] w = 47 -> JO(<<"h", "f">>, <<JL(<<JO(<<"r">>, <<JNull>>), JO(<<"r">>, <<JS("s")>>)>>), j0>>)

Init == \E k \in Range(Kinds) \cap SeedKinds, n \in BOOLEAN :
          \E m \in 1..Len(Menu(k)) :
            /\ (k \in ConstKinds => n = (k = "Null"))          \* constant nodes have no nullability of their own
            /\ T = LeafT(k, n)
            /\ j = Menu(k)[m]
            /\ d = 0
            /\ rb \in (IF k = "String" /\ m = 2 THEN BOOLEAN ELSE {FALSE})
            /\ deep = IF DeepAll = "sim" THEN "full"
                      ELSE IF DeepAll = "thorough" /\ k \in OrigKinds /\ ~rb /\ m <= 6 THEN "full"   \* the first six menu entries of a kind
                      ELSE IF DeepSeed(k, n, m) THEN "qw" ELSE "no"

\* wraps applied beyond depth 1 for "qw" seeds (both levels): one representative of every family (17)
QuickWraps == {1, 4, 5, 6, 7, 11, 19, 22, 25, 27, 29, 30, 33, 35, 37, 44, 45}
\* second-level wraps of the exhaustive (thorough) run: everything but near-duplicates
ThoroughWraps2 == (1..NWraps) \ {2, 8, 10, 13, 14, 17, 18, 20, 23, 24, 26, 28, 31, 32, 34, 36, 38, 39, 41, 42, 43, 46, 47}
Wrap(w, n) == /\ d < MaxDepth
              /\ \/ d = 0
                 \/ DeepAll = "sim"
                 \/ deep = "full" /\ w \in ThoroughWraps2
                 \/ deep = "qw" /\ w \in QuickWraps
              /\ (w \in {12, 13, 35, 36} => j.t # "x")
              \* Null / EmptyObject / EmptyArray have no path and are never planned for a protected field: not denied directly
              /\ (w \in 37..39 => T.k \notin {"Null", "EmptyObject", "EmptyArray"})
              /\ T' = WrapT(w, n, T)
              /\ j' = WrapJ(w, T, j)
              /\ d' = d + 1
              /\ deep' = IF deep = "qw" /\ w \notin QuickWraps THEN "no" ELSE deep
              /\ UNCHANGED rb

Next == \E w \in 1..NWraps, n \in BOOLEAN : Wrap(w, n)
Spec == Init /\ [][Next]_vars

\* the case: the root object of a query plan (non-null, path empty) with the generated field and a sibling after it
RootT == ObjectNode(FALSE, "Query", <<"Query">>,
                    IF rb THEN <<F("b", ChainB), F("a", T), F("z", Str(TRUE))>> ELSE <<F("a", T), F("z", Str(TRUE))>>)
RootJ == IF rb THEN JO(<<"b", "a", "z">>, <<ChainBJ, j, JS("zz")>>) ELSE JO(<<"a", "z">>, <<j, JS("zz")>>)
RootOffs == Offs(RootT, RootJ, <<>>, NoAnc, <<>>, FALSE)

\* stated as an INVARIANT so that TLC prints every distinct state exactly once
Emit == PrintT(ToJson([T |-> RootT, j |-> RootJ, d |-> d,
                       cls |-> [i \in 1..Len(RootOffs) |-> RootOffs[i].c],
                       exp |-> Complete(RootT, RootJ)]))

(* model-level properties, checked on every generated (T, j) *)
\* the reference completion satisfies the relation => the relation is satisfiable for every input
SpecSelfConsistent == RenderOK(RootT, RootJ, Complete(RootT, RootJ))
\* well-typed data: the projection without errors, and only that
WellTypedExact == WellTyped(RootT, RootJ) =>
                    /\ Complete(RootT, RootJ) = JO(<<"data">>, <<Project(RootT, RootJ)>>)
                    /\ NaiveOut(RootT, RootJ) = Complete(RootT, RootJ)
\* the relation is not vacuous: the three canonical wrong renderers are rejected
RejectsNaive == ~WellTyped(RootT, RootJ) => ~RenderOK(RootT, RootJ, NaiveOut(RootT, RootJ))
RejectsSilent == ~WellTyped(RootT, RootJ) => ~Conj(RootT, RootJ, SilentOut(RootT, RootJ), "Reported")
RejectsTooFar == (RootOffs # <<>> /\ \A i \in 1..Len(RootOffs) : RootOffs[i].null /\ RootOffs[i].near.has)
                   => ~Conj(RootT, RootJ, DataNullOut(RootT, RootJ), "NullProp")
\* negative control (MC_Render_neg.cfg): this is NOT an invariant -- TLC must find a counterexample
NaiveAccepted == RenderOK(RootT, RootJ, NaiveOut(RootT, RootJ))
=============================================================================
