---------------------------- MODULE Trace_FTRun ----------------------------
(* C08 part (b), trace validation: the event stream recorded from the real     *)
(* resolve.Loader (hooks ld.* + harness-side gate ds.load, harness/cmd/ftexec  *)
(* and cmd/ftfed) must be a behaviour of FTRun: one event = one point of one   *)
(* request with its guard (order of the points of a request, exclusiveness of  *)
(* the [db] sections, what the data source call saw), and the C08 invariants   *)
(* are evaluated in every state.  Traces are concatenated; "reset" starts the  *)
(* next one and carries its plan (tree, deps).                                 *)
EXTENDS FTRun, Json, TLCExt, IOUtils
TraceLog == ndJsonDeserialize(IOEnv.TRACE)
VARIABLES l, tree, deps, s, returned
tvars == <<l, tree, deps, s, returned>>
Ev == TraceLog[l]
IsEvent(e) == l <= Len(TraceLog) /\ Ev.ev = e /\ l' = l + 1
Known(f) == f \in LeafIds(tree)

TraceInit ==
  /\ l = 1 /\ TLCSet(1, 0)
  /\ tree = Leaf(1) /\ deps = <<{}>> /\ s = S0(Leaf(1)) /\ returned = TRUE

\* a new trace may only start when the previous run returned with every request merged
T_Reset ==
  /\ IsEvent("reset")
  /\ (l = 1 \/ (returned /\ Finished(tree, s)))
  /\ tree' = Ev.tree
  /\ deps' = [f \in 1..Len(Ev.deps) |-> Range(Ev.deps[f])]
  /\ s' = S0(Ev.tree)
  /\ returned' = FALSE
T_End == IsEvent("end") /\ returned /\ Finished(tree, s) /\ UNCHANGED <<tree, deps, s, returned>>
T_Return == /\ IsEvent("return") /\ ~returned /\ Finished(tree, s) /\ Ev.b = 1
            /\ returned' = TRUE /\ UNCHANGED <<tree, deps, s>>

Point(name, can, eff) ==
  /\ IsEvent(name) /\ Known(Ev.f) /\ ~returned
  /\ can
  /\ s' = eff
  /\ UNCHANGED <<tree, deps, returned>>

T_Prepare  == Point("ld.prepare",  CanEnter(s, Ev.f),    EnterEff(s, Ev.f))
T_Prepared == Point("ld.prepared", CanPrepared(s, Ev.f), PreparedEff(tree, deps, s, Ev.f))
T_Load     == Point("ld.load",     CanLoad(s, Ev.f) /\ Ev.b = 0, LoadEff(s, Ev.f))
\* the request is issued: its input shows exactly the data of the requests that were merged when it was prepared
T_DsLoad   == Point("ds.load",     CanDs(s, Ev.f) /\ Range(Ev.saw) = s.seen[Ev.f], DsEff(s, Ev.f))
\* federated runs (cmd/ftfed): the request reaches the subgraph RoundTripper; what it read is judged by the response
T_XLoad    == Point("x.load",      CanDs(s, Ev.f), DsEff(s, Ev.f))
\* nothing to ask for (no parent item selected / every batch item skipped): no request is issued
T_LoadSkip == Point("ld.load",     CanLoad(s, Ev.f) /\ Ev.b = 1, [LoadEff(s, Ev.f) EXCEPT !.ph[Ev.f] = 5])
T_Loaded   == Point("ld.loaded",   CanLoaded(s, Ev.f, Ev.b = 1), LoadedEff(s, Ev.f, Ev.b = 1))
T_Skipped  == Point("ld.skipped",  CanSkipped(deps, s, Ev.f), SkippedEff(tree, s, Ev.f))
T_Merging  == Point("ld.merging",  CanMerging(s, Ev.f),  MergingEff(s, Ev.f))
T_Merged   == Point("ld.merged",   CanMerged(s, Ev.f),   MergedEff(tree, s, Ev.f))
T_Hold     == Point("hold",        CanHold(s, Ev.f),     HoldEff(s, Ev.f))
T_Unhold   == Point("unhold",      CanUnhold(s, Ev.f),   UnholdEff(s, Ev.f))

TraceNext == T_Reset \/ T_End \/ T_Return \/ T_Prepare \/ T_Prepared \/ T_Load \/ T_DsLoad
             \/ T_Loaded \/ T_Merging \/ T_Merged \/ T_Hold \/ T_Unhold \/ T_XLoad \/ T_LoadSkip \/ T_Skipped
TraceSpec == TraceInit /\ [][TraceNext]_tvars

Inv_DepsRespected == DepsRespected(tree, deps, s)
Inv_SawAllDeps    == SawAllDeps(tree, deps, s)

HighWater == TLCSet(1, IF l > TLCGet(1) THEN l ELSE TLCGet(1))
TraceAccepted ==
  IF TLCGet(1) = Len(TraceLog) + 1 THEN TRUE
  ELSE /\ PrintT(<<"TRACE_STUCK_AT_LINE", TLCGet(1)>>)
       /\ FALSE
=============================================================================
