CONSTANTS
  TransitiveSkip = TRUE
  FaultMaxN = 0
  MaxN = 3
  Family = "max"
SPECIFICATION TreesSpec
CONSTRAINT EmitTree
CHECK_DEADLOCK FALSE
