CONSTANTS
  MaxN = 3
  Family = "max"
SPECIFICATION TreesSpec
CONSTRAINT EmitTree
CHECK_DEADLOCK FALSE
