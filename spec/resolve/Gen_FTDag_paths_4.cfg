CONSTANTS
  MaxN = 4
  Stratum = "paths"
  PathsMaxN = 4
  DeferMaxN = 4
SPECIFICATION GenSpec
CONSTRAINT GenConstraint
CHECK_DEADLOCK FALSE
