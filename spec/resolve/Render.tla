------------------------------- MODULE Render -------------------------------
(* C02 -- "Rendered response is well-formed and type-safe whatever subgraphs *)
(* return".                                                                   *)
(*                                                                            *)
(* Response plan trees T (the resolve.Node kinds of graphql-go-tools), tagged *)
(* JSON values j (what the subgraphs delivered, already merged), the          *)
(* reference completion Complete(T,j) (GraphQL CompleteValue with null        *)
(* propagation) and the relation Verdict(T,j,out) / RenderOK(T,j,out) that    *)
(* the bytes written by Resolvable.Resolve must satisfy.                      *)
(*                                                                            *)
(* Code map: v2/pkg/engine/resolve/resolvable.go walkObject / walkFields /    *)
(* walkArray / walkString / walkInteger / walkFloat / walkBoolean / walkEnum  *)
(* / walkScalar, node_*.go, pkg/fastjsonext (error objects with path).        *)
EXTENDS Integers, Sequences, FiniteSets, TLC

(* ------------------------------------------------------------------------ *)
(* Tagged JSON.  TLC cannot read null / floats and raises an error when       *)
(* values of different shapes are compared, so every value is a record whose  *)
(* first-compared field is the tag t:                                         *)
(*   n null | x absent (object member only) | b bool | s string               *)
(*   i integral number representable in 32 bits (value in v)                  *)
(*   g integral number outside the 32-bit range (literal text in v)           *)
(*   f non-integral number (literal text in v)                                *)
(*   l list (v = sequence) | o object (k = keys, v = values, ordered)         *)
(* ------------------------------------------------------------------------ *)
JNull == [t |-> "n"]
JAbsent == [t |-> "x"]
JS(s) == [t |-> "s", v |-> s]
JI(i) == [t |-> "i", v |-> i]
JF(s) == [t |-> "f", v |-> s]
JG(s) == [t |-> "g", v |-> s]
JB(b) == [t |-> "b", v |-> b]
JL(xs) == [t |-> "l", v |-> xs]
JO(ks, vs) == [t |-> "o", k |-> ks, v |-> vs]

Range(s) == {s[i] : i \in 1..Len(s)}
InSeq(x, s) == \E i \in 1..Len(s) : s[i] = x
NoDup(s) == \A a, b \in 1..Len(s) : a # b => s[a] # s[b]
Has(o, key) == o.t = "o" /\ InSeq(key, o.k)
\* first occurrence wins (astjson.Object.Get)
Get(o, key) == IF Has(o, key)
               THEN o.v[CHOOSE i \in 1..Len(o.k) : o.k[i] = key /\ \A h \in 1..(i - 1) : o.k[h] # key]
               ELSE JAbsent
Nullish(v) == v.t \in {"n", "x"}

(* ------------------------------------------------------------------------ *)
(* Plan trees.  One record shape for every node kind:                         *)
(*  k kind, n nullable, fs fields (Object), it <<item>> (Array), pt possible  *)
(*  types (Object), tn type name, vals / inacc enum values (Enum).            *)
(* Field: name response key, key JSON key in the subgraph data, on            *)
(*  OnTypeNames, pon ParentOnTypeNames (<<[d |-> depth, names |-> ..]>>), v.   *)
(* ------------------------------------------------------------------------ *)
LeafKinds == {"String", "Int", "Float", "Boolean", "Enum", "Scalar", "BigInt", "Custom"}
\* nodes that render a constant whatever the data holds: StaticString (value in tn), EmptyObject, EmptyArray, Null
ConstKinds == {"StaticString", "EmptyObject", "EmptyArray", "Null"}
Node(k, n, fs, it, pt, tn, vals, inacc) ==
  [k |-> k, n |-> n, fs |-> fs, it |-> it, pt |-> pt, tn |-> tn, vals |-> vals, inacc |-> inacc]
Leaf(k, n) == Node(k, n, <<>>, <<>>, <<>>, k, <<>>, <<>>)
EnumNode(n, tn, vals, inacc) == Node("Enum", n, <<>>, <<>>, <<>>, tn, vals, inacc)
ArrayNode(n, item) == Node("Array", n, <<>>, <<item>>, <<>>, "", <<>>, <<>>)
ObjectNode(n, tn, pt, fs) == Node("Object", n, fs, <<>>, pt, tn, <<>>, <<>>)
\* deny = the post-fetch authorizer denies this field: its value is a null at that position + an error
Fld(name, key, on, pon, v) == [name |-> name, key |-> key, on |-> on, pon |-> pon, deny |-> FALSE, v |-> v]
FldD(name, v) == [name |-> name, key |-> name, on |-> <<>>, pon |-> <<>>, deny |-> TRUE, v |-> v]
F(name, v) == Fld(name, name, <<>>, <<>>, v)

IsLeaf(T) == T.k \in LeafKinds
IsConst(T) == T.k \in ConstKinds
ConstVal(T) == CASE T.k = "StaticString" -> JS(T.tn)
                 [] T.k = "EmptyObject" -> JO(<<>>, <<>>)
                 [] T.k = "EmptyArray" -> JL(<<>>)
                 [] T.k = "Null" -> JNull
\* resolve.Object.isAbstract
IsAbstract(T) == Len(T.pt) > 1 \/ (Len(T.pt) = 1 /\ T.pt[1] # T.tn)

\* runtime type of an object value ("" = none: missing or non-string __typename)
RT(jv) == IF Has(jv, "__typename") /\ Get(jv, "__typename").t = "s" THEN Get(jv, "__typename").v ELSE ""
\* an object value the client schema can expose at a position of (abstract) object type T
ValidObj(T, jv) == jv.t = "o" /\ (IsAbstract(T) => (RT(jv) # "" /\ InSeq(RT(jv), T.pt)))

\* does the type condition of field f hold?  tns = runtime type names of the enclosing objects, innermost last
FieldOn(f, tns) ==
  /\ f.on # <<>> => (tns[Len(tns)] # "" /\ InSeq(tns[Len(tns)], f.on))
  /\ \A e \in 1..Len(f.pon) : LET tn == tns[Len(tns) - f.pon[e].d] IN tn # "" /\ InSeq(tn, f.pon[e].names)
Sel(T, tns) == SelectSeq(T.fs, LAMBDA f : FieldOn(f, tns))

\* Does a non-null JSON value conform to a leaf type of the client schema?  Built-in scalars are strict
\* (GraphQL spec 3.5: Int = integral number in 32-bit range; Float = number; String; Boolean); enum values
\* must be declared and accessible; custom scalars and ID (resolve.Scalar) accept any JSON value.
LeafOK(T, v) ==
  CASE T.k = "String" -> v.t = "s"
    [] T.k = "Int" -> v.t = "i"
    [] T.k = "Float" -> v.t \in {"i", "g", "f"}
    [] T.k = "Boolean" -> v.t = "b"
    [] T.k = "Enum" -> v.t = "s" /\ InSeq(v.v, T.vals) /\ ~InSeq(v.v, T.inacc)
    [] T.k = "Scalar" -> TRUE
    [] T.k = "BigInt" -> TRUE                  \* resolve.BigInt: a custom scalar, any JSON value
    [] T.k = "Custom" -> v.t = "s"             \* resolve.CustomNode with the harness' resolver: accepts strings only
\* what a leaf renders for an acceptable subgraph value (the harness' custom resolver wraps the string: {"c": value})
LeafOut(T, jv) == IF T.k = "Custom" THEN JO(<<"c">>, <<jv>>) ELSE jv
\* does a rendered non-null value conform to the leaf type?
LeafOutOK(T, ov) == IF T.k = "Custom" THEN ov.t = "o" /\ ov.k = <<"c">> /\ ov.v[1].t = "s" ELSE LeafOK(T, ov)

(* ------------------------------------------------------------------------ *)
(* Offending positions of (T, j): the frontier of positions, reached by       *)
(* walking T over j through valid objects and lists, whose value is null or   *)
(* absent in a non-null position (null = TRUE) or ill-typed (null = FALSE).   *)
(*  p    response path (tagged strings / indices)                             *)
(*  near nearest nullable strict ancestor ([has |-> FALSE] = none: data)      *)
(*  c    class label, used only to name findings                              *)
(* Ordered as the walk meets them.                                            *)
(* ------------------------------------------------------------------------ *)
NoAnc == [has |-> FALSE, p |-> <<>>]
Anc(p) == [has |-> TRUE, p |-> p]
Off(p, isnull, near, c) == [p |-> p, null |-> isnull, near |-> near, c |-> c]

\* class label of an offending position: [alias/]<node kind>:<what was found>[@item | @item-field]
\*  alias/      a field on the path has a response key different from its JSON key
\*  @item       the position is a list item;  @item-field  a field of an object that is a list item
PosShape(p) == IF Len(p) >= 1 /\ p[Len(p)].t = "i" THEN "@item"
               ELSE IF Len(p) >= 2 /\ p[Len(p) - 1].t = "i" THEN "@item-field"
               ELSE ""
Found(T, jv) == IF T.k = "Enum" /\ jv.t = "s" THEN (IF InSeq(jv.v, T.vals) THEN "inaccessible" ELSE "invalid") ELSE jv.t
Cls(al, T, what, p) == (IF al THEN "alias/" ELSE "") \o T.k \o ":" \o what \o PosShape(p)

RECURSIVE Offs(_, _, _, _, _, _)
Offs(T, jv, p, na, tns, al) ==
  IF IsConst(T) THEN <<>>
  ELSE IF Nullish(jv) THEN (IF T.n THEN <<>> ELSE <<Off(p, TRUE, na, Cls(al, T, "null", p))>>)
  ELSE
    LET me == IF T.n THEN Anc(p) ELSE na IN
    CASE IsLeaf(T) -> IF LeafOK(T, jv) THEN <<>> ELSE <<Off(p, FALSE, na, Cls(al, T, Found(T, jv), p))>>
      [] T.k = "Array" ->
           IF jv.t # "l" THEN <<Off(p, FALSE, na, Cls(al, T, jv.t, p))>>
           ELSE LET n == Len(jv.v)
                    acc[i \in 0..n] == IF i = 0 THEN <<>>
                                       ELSE acc[i - 1] \o Offs(T.it[1], jv.v[i], Append(p, JI(i - 1)), me, tns, al)
                IN acc[n]
      [] T.k = "Object" ->
           IF jv.t # "o" THEN <<Off(p, FALSE, na, Cls(al, T, jv.t, p))>>
           ELSE IF ~ValidObj(T, jv) THEN <<Off(p, FALSE, na, Cls(al, T, "typename", p))>>
           ELSE LET tns2 == Append(tns, RT(jv))
                    sel == Sel(T, tns2)
                    n == Len(sel)
                    pp(i) == Append(p, JS(sel[i].name))
                    al2(i) == al \/ sel[i].key # sel[i].name
                    acc[i \in 0..n] == IF i = 0 THEN <<>>
                                       ELSE acc[i - 1] \o
                                            (IF sel[i].deny
                                             THEN <<Off(pp(i), TRUE, IF sel[i].v.n THEN Anc(pp(i)) ELSE me, Cls(al2(i), sel[i].v, "denied", pp(i)))>>
                                             ELSE Offs(sel[i].v, Get(jv, sel[i].key), pp(i), me, tns2, al2(i)))
                IN acc[n]

WellTyped(T, j) == Offs(T, j, <<>>, NoAnc, <<>>, FALSE) = <<>>

(* ------------------------------------------------------------------------ *)
(* Reference completion (GraphQL spec 6.4.3 CompleteValue + 6.4.4 errors and   *)
(* non-null propagation): result [ok, v, e]; ok = FALSE means "a field error   *)
(* propagates to the parent"; e = paths of the field errors raised.            *)
(* ------------------------------------------------------------------------ *)
Res(ok, v, e) == [ok |-> ok, v |-> v, e |-> e]

RECURSIVE Cmp(_, _, _, _)
Cmp(T, jv, p, tns) ==
  IF IsConst(T) THEN Res(TRUE, ConstVal(T), <<>>)
  ELSE IF Nullish(jv) THEN (IF T.n THEN Res(TRUE, JNull, <<>>) ELSE Res(FALSE, JNull, <<p>>))
  ELSE
    LET raw ==
      CASE IsLeaf(T) -> IF LeafOK(T, jv) THEN Res(TRUE, LeafOut(T, jv), <<>>) ELSE Res(FALSE, JNull, <<p>>)
        [] T.k = "Array" ->
             IF jv.t # "l" THEN Res(FALSE, JNull, <<p>>)
             ELSE LET n == Len(jv.v)
                      rs == [i \in 1..n |-> Cmp(T.it[1], jv.v[i], Append(p, JI(i - 1)), tns)]
                      es[i \in 0..n] == IF i = 0 THEN <<>> ELSE es[i - 1] \o rs[i].e
                  IN Res(\A i \in 1..n : rs[i].ok, JL([i \in 1..n |-> rs[i].v]), es[n])
        [] T.k = "Object" ->
             IF ~ValidObj(T, jv) THEN Res(FALSE, JNull, <<p>>)
             ELSE LET tns2 == Append(tns, RT(jv))
                      sel == Sel(T, tns2)
                      n == Len(sel)
                      rs == [i \in 1..n |->
                               IF sel[i].deny
                               THEN Res(sel[i].v.n, JNull, <<Append(p, JS(sel[i].name))>>)   \* denied: null + error, bubbles if non-null
                               ELSE Cmp(sel[i].v, Get(jv, sel[i].key), Append(p, JS(sel[i].name)), tns2)]
                      es[i \in 0..n] == IF i = 0 THEN <<>> ELSE es[i - 1] \o rs[i].e
                  IN Res(\A i \in 1..n : rs[i].ok, JO([i \in 1..n |-> sel[i].name], [i \in 1..n |-> rs[i].v]), es[n])
    IN IF raw.ok THEN raw
       ELSE IF T.n THEN Res(TRUE, JNull, raw.e)   \* the error is absorbed by this nullable position
       ELSE Res(FALSE, JNull, raw.e)

ErrObj(p) == JO(<<"message", "path">>, <<JS("field error"), JL(p)>>)
\* the response the specification prescribes (one of the allowed ones)
Complete(T, j) ==
  LET r == Cmp(T, j, <<>>, <<>>)
      data == IF r.ok THEN r.v ELSE JNull
  IN IF Len(r.e) = 0 THEN JO(<<"data">>, <<data>>)
     ELSE JO(<<"errors", "data">>, <<JL([i \in 1..Len(r.e) |-> ErrObj(r.e[i])]), data>>)

\* Project(T,j): the projection of well-typed data through the selection
Project(T, j) == Cmp(T, j, <<>>, <<>>).v

(* ------------------------------------------------------------------------ *)
(* The relation.  Verdict(T, j, out) = set of failures [c |-> conjunct,        *)
(* w |-> witness]; RenderOK == Verdict = {}.  Conjuncts:                       *)
(*  WellFormed  out is a GraphQL response: object, keys within data / errors / *)
(*              extensions, data present and object-or-null, errors a         *)
(*              non-empty list of {message: string, path?: [string|int]}      *)
(*  TypeSafe    every value in data conforms to its declared type (null only   *)
(*              in nullable positions; no object rendered for a value that is  *)
(*              not a valid object of the type)                               *)
(*  Keys        every object has exactly the response keys selected for its    *)
(*              runtime type, each once                                       *)
(*  Projection  every non-null leaf is the subgraph's value at that position,  *)
(*              lists keep their length, nothing is invented; no errors when   *)
(*              the data is well-typed                                        *)
(*  NullProp    every null that replaces a non-null subgraph value sits at a   *)
(*              nullable ancestor(-or-self) of an offending position, the      *)
(*              nearest one when the offender is a null; data:null likewise    *)
(*  Reported    ... and some error's path is the response path of such an      *)
(*              offending position                                            *)
(* ------------------------------------------------------------------------ *)
Fail(c, w) == [c |-> c, w |-> w]

\* a null at (T, p) replaces the non-null value jv; tgt = the position as an ancestor marker
Replaced(T, jv, p, na, tns, al, eps, tgt) ==
  LET offs == Offs(T, jv, p, na, tns, al)
      just == SelectSeq(offs, LAMBDA o : (~o.null) \/ o.near = tgt)
  IN IF Len(just) = 0
     THEN {Fail("NullProp", IF Len(offs) = 0 THEN "null-without-offender" ELSE "not-nearest/" \o offs[1].c)}
     ELSE IF \E i \in 1..Len(just) : just[i].p \in eps THEN {}
     ELSE {Fail("Reported", just[1].c)}

\* a denied field that is present in the output: null (in a nullable position) and reported at its path
Denied(T, ov, p, al, eps) ==
  (IF ov.t # "n" THEN {Fail("TypeSafe", "denied-value-rendered")}
   ELSE IF T.n THEN {} ELSE {Fail("TypeSafe", T.k \o ":null-in-non-null")})
  \cup (IF p \in eps THEN {} ELSE {Fail("Reported", Cls(al, T, "denied", p))})

RECURSIVE D(_, _, _, _, _, _, _, _)
D(T, jv, ov, p, na, tns, al, eps) ==
  IF IsConst(T) THEN (IF ov = ConstVal(T) THEN {} ELSE {Fail("Projection", "constant-node:" \o T.k)})
  ELSE IF ov.t = "n" THEN
    (IF T.n THEN {} ELSE {Fail("TypeSafe", T.k \o ":null-in-non-null")})
    \cup (IF Nullish(jv) THEN {} ELSE Replaced(T, jv, p, na, tns, al, eps, Anc(p)))
  ELSE IF Nullish(jv) THEN {Fail("Projection", "value-for-null")}
  ELSE
    LET me == IF T.n THEN Anc(p) ELSE na IN
    CASE IsLeaf(T) ->
           (IF LeafOutOK(T, ov) THEN {} ELSE {Fail("TypeSafe", T.k \o ":" \o ov.t)})
           \cup (IF ov = LeafOut(T, jv) THEN {} ELSE {Fail("Projection", "leaf-differs")})
      [] T.k = "Array" ->
           IF ov.t # "l" THEN {Fail("TypeSafe", "Array:" \o ov.t)}
           ELSE IF jv.t # "l" THEN {Fail("TypeSafe", "Array:rendered-for-" \o jv.t)}
           ELSE IF Len(jv.v) # Len(ov.v) THEN {Fail("Projection", "list-length")}
           ELSE UNION {D(T.it[1], jv.v[i], ov.v[i], Append(p, JI(i - 1)), me, tns, al, eps) : i \in 1..Len(ov.v)}
      [] T.k = "Object" ->
           IF ov.t # "o" THEN {Fail("TypeSafe", "Object:" \o ov.t)}
           ELSE IF ~ValidObj(T, jv) THEN {Fail("TypeSafe", "Object:rendered-for-invalid")}
           ELSE LET tns2 == Append(tns, RT(jv))
                    sel == Sel(T, tns2)
                    names == [i \in 1..Len(sel) |-> sel[i].name]
                IN (IF NoDup(ov.k) /\ Range(ov.k) = Range(names) THEN {}
                    ELSE {Fail("Keys", IF ~NoDup(ov.k) THEN "duplicate" ELSE IF Range(names) \subseteq Range(ov.k) THEN "extra" ELSE "missing")})
                   \cup UNION {IF ~Has(ov, sel[i].name) THEN {}
                               ELSE IF sel[i].deny
                               THEN Denied(sel[i].v, Get(ov, sel[i].name), Append(p, JS(sel[i].name)), al \/ sel[i].key # sel[i].name, eps)
                               ELSE D(sel[i].v, Get(jv, sel[i].key), Get(ov, sel[i].name), Append(p, JS(sel[i].name)),
                                      me, tns2, al \/ sel[i].key # sel[i].name, eps) : i \in 1..Len(sel)}

PathOK(pv) == pv.t = "l" /\ \A i \in 1..Len(pv.v) : pv.v[i].t \in {"s", "i"}
ErrorOK(e) == /\ e.t = "o" /\ NoDup(e.k)
              /\ Has(e, "message") /\ Get(e, "message").t = "s"
              /\ Has(e, "path") => PathOK(Get(e, "path"))
WellFormed(out) ==
  /\ out.t = "o" /\ NoDup(out.k)
  /\ Range(out.k) \subseteq {"data", "errors", "extensions"}
  /\ Has(out, "data") /\ Get(out, "data").t \in {"n", "o"}
  /\ Has(out, "errors") => LET es == Get(out, "errors") IN
                             es.t = "l" /\ Len(es.v) > 0 /\ \A i \in 1..Len(es.v) : ErrorOK(es.v[i])
  /\ Has(out, "extensions") => Get(out, "extensions").t = "o"

ErrPaths(out) == IF Has(out, "errors")
                 THEN LET es == Get(out, "errors").v IN
                      {Get(es[i], "path").v : i \in {h \in 1..Len(es) : Has(es[h], "path")}}
                 ELSE {}

\* T = the root object of the plan (non-null, path empty), j = the merged subgraph data (an object)
Verdict(T, j, out) ==
  IF ~WellFormed(out) THEN {Fail("WellFormed", "response-shape")}
  ELSE LET data == Get(out, "data")
           eps == ErrPaths(out)
       IN (IF data.t = "n" THEN Replaced(T, j, <<>>, NoAnc, <<>>, FALSE, eps, NoAnc)
           ELSE D(T, j, data, <<>>, NoAnc, <<>>, FALSE, eps))
          \cup (IF WellTyped(T, j) /\ Has(out, "errors") THEN {Fail("Projection", "errors-for-well-typed-data")} ELSE {})

RenderOK(T, j, out) == Verdict(T, j, out) = {}
Conj(T, j, out, c) == \A f \in Verdict(T, j, out) : f.c # c

(* ------------------------------------------------------------------------ *)
(* Responses the relation must REJECT (used by the model check to show the     *)
(* relation is not vacuous).                                                  *)
(* ------------------------------------------------------------------------ *)
\* renders whatever the subgraph sent, no checks, no errors
RECURSIVE Raw(_, _, _)
Raw(T, jv, tns) ==
  IF IsConst(T) THEN ConstVal(T)
  ELSE IF Nullish(jv) THEN JNull
  ELSE CASE IsLeaf(T) -> LeafOut(T, jv)
         [] T.k = "Array" -> IF jv.t # "l" THEN jv ELSE JL([i \in 1..Len(jv.v) |-> Raw(T.it[1], jv.v[i], tns)])
         [] T.k = "Object" -> IF ~ValidObj(T, jv) THEN jv
                              ELSE LET tns2 == Append(tns, RT(jv))
                                       sel == Sel(T, tns2)
                                   IN JO([i \in 1..Len(sel) |-> sel[i].name],
                                         [i \in 1..Len(sel) |-> Raw(sel[i].v, Get(jv, sel[i].key), tns2)])
NaiveOut(T, j) == JO(<<"data">>, <<Raw(T, j, <<>>)>>)
\* right data, errors forgotten
SilentOut(T, j) == JO(<<"data">>, <<Get(Complete(T, j), "data")>>)
\* right errors, but everything thrown away
DataNullOut(T, j) == LET c == Complete(T, j) IN
                     IF Has(c, "errors") THEN JO(<<"errors", "data">>, <<Get(c, "errors"), JNull>>) ELSE JO(<<"data">>, <<JNull>>)
=============================================================================
