CONSTANTS
  Menu <- MC_Menu
  Headers <- MC_Headers
  Outcomes <- MC_Outcomes
  DefaultTTL = 2
  MaxReq = 2
  MaxTick = 2
  GetFaults = TRUE
  SetFaults = "all"
  MaxEvict = 1
  TTLSlack = TRUE
  Bug = "none"
SPECIFICATION Spec
INVARIANTS CacheTransparent StoreSound
PROPERTIES StoredOnlyIfAllowed
CHECK_DEADLOCK FALSE
