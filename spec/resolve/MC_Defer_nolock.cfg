CONSTANTS
  MaxD = 2
  Locked = FALSE
  CanDisconnect = FALSE
  AllGroups = TRUE
SPECIFICATION Spec
INVARIANTS FramesAtomic
