CONSTANTS
  MaxD = 2
  Locked = FALSE
  AllGroups = TRUE
SPECIFICATION Spec
INVARIANTS FramesAtomic
