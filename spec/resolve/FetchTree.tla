----------------------------- MODULE FetchTree -----------------------------
(* C08 - fetch trees (resolve/fetchtree.go), their structural well-formedness  *)
(* with respect to a dependency relation, and their operational semantics      *)
(* (resolve/loader.go: resolveFetchNodeWithCtx / resolveSerial /               *)
(* resolveParallel / resolveSingle = prepare [db] -> load -> merge [db]).      *)
(*                                                                             *)
(* A tree node is a record of uniform shape [k, id, m, c]:                     *)
(*   k = "F"  one request; id = fetch id, m = ids of the planned fetches this   *)
(*            request stands for (<<id>>, or the MergedFetchIDs of a           *)
(*            MultiEntityFetch), c = <<>>                                      *)
(*   k = "S"  Sequence, k = "P" Parallel; id = 0, m = <<>>, c = children        *)
(* The same operators are evaluated on trees chosen by TLC (model checking,    *)
(* schedule generation) and on trees exported from the real post-processor     *)
(* (trace validation), which is why the shape is the JSON shape.               *)
EXTENDS Integers, Sequences, FiniteSets, TLC

Leaf(i)  == [k |-> "F", id |-> i, m |-> <<i>>, c |-> <<>>]
SeqN(cs) == [k |-> "S", id |-> 0, m |-> <<>>, c |-> cs]
ParN(cs) == [k |-> "P", id |-> 0, m |-> <<>>, c |-> cs]

Range(s) == {s[i] : i \in DOMAIN s}

RECURSIVE Flat(_)
\* concatenation of a sequence of sequences
Flat(ss) == IF ss = <<>> THEN <<>> ELSE Head(ss) \o Flat(Tail(ss))

RECURSIVE MemberSeq(_)
\* every planned fetch id that occurs in the tree, in order, with multiplicity
MemberSeq(t) == IF t.k = "F" THEN t.m ELSE Flat([i \in DOMAIN t.c |-> MemberSeq(t.c[i])])

RECURSIVE LeafIdSeq(_)
\* ids of the requests (leaves), in order, with multiplicity
LeafIdSeq(t) == IF t.k = "F" THEN <<t.id>> ELSE Flat([i \in DOMAIN t.c |-> LeafIdSeq(t.c[i])])

Members(t) == Range(MemberSeq(t))

RECURSIVE Prec(_)
\* <<d, f>> \in Prec(t): in EVERY execution of t, the request standing for d has been merged
\* before the request standing for f is prepared.  Computed structurally: only a Sequence orders.
Prec(t) ==
  IF t.k = "F" THEN {}
  ELSE LET sub == UNION {Prec(t.c[i]) : i \in DOMAIN t.c}
       IN IF t.k = "S"
          THEN sub \cup UNION {Members(t.c[i]) \X Members(t.c[j]) : <<i, j>> \in {p \in (DOMAIN t.c) \X (DOMAIN t.c) : p[1] < p[2]}}
          ELSE sub

\* every planned id is represented by exactly one request of the tree
ExactlyOnce(t, ids) ==
  /\ Len(MemberSeq(t)) = Cardinality(ids)
  /\ Members(t) = ids

RECURSIVE ShapeOK(_)
\* a request stands at least for itself; inner nodes carry no fetch
ShapeOK(t) == IF t.k = "F" THEN t.id \in Range(t.m) /\ t.c = <<>>
              ELSE t.k \in {"S", "P"} /\ \A i \in DOMAIN t.c : ShapeOK(t.c[i])

\* dependencies on ids outside the tree are satisfied before the tree starts (defer groups)
DepsOrdered(t, ids, deps) == \A f \in ids : \A d \in deps[f] \cap ids : <<d, f>> \in Prec(t)

WellFormed(t, ids, deps) == ShapeOK(t) /\ ExactlyOnce(t, ids) /\ DepsOrdered(t, ids, deps)

-----------------------------------------------------------------------------
(* Operational semantics.  Nodes are addressed by their path from the root.   *)

RECURSIVE Paths(_)
Paths(t) == {<<>>} \cup UNION {{<<i>> \o p : p \in Paths(t.c[i])} : i \in DOMAIN t.c}

RECURSIVE At(_, _)
At(t, p) == IF p = <<>> THEN t ELSE At(t.c[Head(p)], Tail(p))

Parent(p) == SubSeq(p, 1, Len(p) - 1)
Last(p)   == p[Len(p)]
LeafPaths(t) == {p \in Paths(t) : At(t, p).k = "F"}
\* the request that stands for planned fetch x
PathOf(t, x) == CHOOSE p \in LeafPaths(t) : x \in Range(At(t, p).m)

\* st : Paths(t) -> {"idle", "active", "started", "done"}
\* resolveFetchNodeWithCtx is entered for a node: root at once; a child of a Parallel as soon as the
\* Parallel is entered (g.Go for every child); child i of a Sequence when children 1..i-1 returned.
CanActivate(t, st, p) ==
  /\ st[p] = "idle"
  /\ \/ p = <<>>
     \/ /\ st[Parent(p)] = "active"
        /\ \/ At(t, Parent(p)).k = "P"
           \/ /\ At(t, Parent(p)).k = "S"
              /\ \A i \in 1..(Last(p) - 1) : st[Parent(p) \o <<i>>] = "done"
\* resolveSerial / resolveParallel return (g.Wait) when every child returned
CanComplete(t, st, p) ==
  /\ st[p] = "active"
  /\ At(t, p).k # "F"
  /\ \A i \in DOMAIN At(t, p).c : st[p \o <<i>>] = "done"

Step1(t, st) == [p \in DOMAIN st |->
                   IF CanActivate(t, st, p) THEN "active"
                   ELSE IF CanComplete(t, st, p) THEN "done" ELSE st[p]]
RECURSIVE Settle(_, _)
\* closure under the internal (unobservable) steps; they are monotone and confluent
Settle(t, st) == LET s == Step1(t, st) IN IF s = st THEN st ELSE Settle(t, s)

MergedIn(t, st, x) == st[PathOf(t, x)] = "done"
StartedIn(t, st, x) == st[PathOf(t, x)] \in {"started", "done"}
AllDone(t, st) == st[<<>>] = "done"
=============================================================================
