CONSTANTS
  TransitiveSkip = TRUE
  FaultMaxN = 0
  MaxN = 3
  Family = "bad"
SPECIFICATION Spec
INVARIANTS TypeOK Unconditional
