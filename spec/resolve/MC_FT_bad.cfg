CONSTANTS
  MaxN = 3
  Family = "bad"
SPECIFICATION Spec
INVARIANTS TypeOK Unconditional
