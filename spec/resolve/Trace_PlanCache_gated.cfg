CONSTANTS
  NShapes = 17
  Nms = {0, 1, 2}
  Srcs = {"var", "lit", "dflt"}
  Dirs = {0, 1, 2, 3}
  DSrcs = {"var", "lit"}
  Ops = {0, 1, 2}
  Frs = {0, 1, 2}
  Mos = {0, 1}
  WithInvalid = TRUE
  MaxLen = 99
  Capacity = 1024
  OptionSets = {0, 1, 2, 3, 4, 5, 6, 7, 8, 9, 10, 11, 12, 13, 14, 15}
  Bake = FALSE
  KeyDropsDirs = FALSE
SPECIFICATION TraceSpec
CONSTRAINT HighWater
INVARIANTS T_Transparent T_Model T_Capacity
POSTCONDITION TraceAccepted
CHECK_DEADLOCK FALSE
