CONSTANTS
  MaxF = 3
  OrdF = 2
SPECIFICATION GenSpec
CONSTRAINT Emit
CHECK_DEADLOCK FALSE
