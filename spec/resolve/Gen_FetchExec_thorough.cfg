CONSTANTS
  MaxF = 3
  OrdF = 2
  MultiKinds = {"Transport", "Non2xxNonJSON", "EmptyBody", "NonJSON", "ErrorsNoData", "DataNull", "WrongEntityCount", "PartialData", "Non2xxJSON", "RateLimited"}
SPECIFICATION GenSpec
CONSTRAINT Emit
CHECK_DEADLOCK FALSE
