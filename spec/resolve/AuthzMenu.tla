----------------------------- MODULE AuthzMenu -----------------------------
(* The menu of operations of the C14 generator over the federationtesting    *)
(* supergraph (accounts, products, reviews).  Every selection set on an       *)
(* abstract type whose runtime types select different fields asks for         *)
(* __typename, so that a delivered object can be matched to its shape.        *)
(* Covered: root fields (several per subgraph request), entity-fetched        *)
(* fields across subgraphs, @provides, shareable fields, list items, unions   *)
(* and interfaces (fields selected on the interface and on the object),       *)
(* one coordinate served by two data sources in independent subtrees          *)
(* (User.realName is shareable, User.username is @provided by reviews),       *)
(* aliases, merged selections, @defer (object anchor, list anchor, nested,    *)
(* abstract), mutations (one / two root fields, nested entity fetches).       *)
Menu == <<
  [id |-> "q_me",        text |-> "query { me { id username realName } }"],
  [id |-> "q_me_rev",    text |-> "query { me { id username reviews { body author { id username } product { upc name price } } } }"],
  [id |-> "q_top",       text |-> "query { topProducts { upc name price reviews { body author { id username realName } } } }"],
  [id |-> "q_roots",     text |-> "query { me { id username } cat { name } topProducts { upc name } }"],
  [id |-> "q_hist",      text |-> "query { me { id history { __typename ... on Purchase { quantity wallet { __typename currency amount ... on WalletType1 { specialField1 } } } ... on Sale { location rating } ... on Store { location } } } }"],
  [id |-> "q_histories", text |-> "query { histories { __typename ... on Purchase { quantity product { upc name } } ... on Sale { rating product { upc } } } }"],
  [id |-> "q_alias",     text |-> "query { a: me { id u1: username u2: username } b: me { realName } }"],
  [id |-> "q_merged",    text |-> "query { me { id reviews { body } reviews { author { username } } } me { username } }"],
  [id |-> "q_attach",    text |-> "query { topProducts { upc reviews { body attachments { __typename ... on Question { upc body subject } ... on Rating { upc score } ... on Video { upc size } } comment { __typename upc body ... on Question { subject } } } } }"],
  [id |-> "q_iface",     text |-> "query { identifiable { __typename id ... on User { username reviews { body } } } }"],
  [id |-> "q_nested",    text |-> "query { someNestedInterfaces { __typename otherInterfaces { __typename someObject { a b } ... on SomeType1 { name age } } } }"],
  [id |-> "q_cds",       text |-> "query { cds { __typename ... on C { name { first last } } ... on D { name { first middle } } } }"],
  [id |-> "q_shared",    text |-> "query { me { id username realName } topProducts { upc reviews { body author { id username realName } } } }"],
  [id |-> "d_me",        text |-> "query { me { id ... @defer { realName } } }"],
  [id |-> "d_me_rev",    text |-> "query { me { id username ... @defer { reviews { body author { id username } } } } }"],
  [id |-> "d_top",       text |-> "query { topProducts { upc ... @defer { name price reviews { body } } } }"],
  [id |-> "d_two",       text |-> "query { me { id ... @defer { username reviews { body } } } topProducts { upc ... @defer { name } } }"],
  [id |-> "d_nested",    text |-> "query { me { id ... @defer { username ... @defer { reviews { body product { upc ... @defer { name } } } } } } }"],
  [id |-> "d_hist",      text |-> "query { me { id ... @defer { history { __typename ... on Purchase { quantity wallet { __typename currency } } ... on Sale { location } } } } }"],
  [id |-> "m_add",       text |-> "mutation { addReview(authorID: \"7777\", upc: \"top-1\", review: \"c14-review-body\") { body author { id username } product { upc name } } }"],
  [id |-> "m_two",       text |-> "mutation { a: addReview(authorID: \"7777\", upc: \"top-1\", review: \"c14-first\") { body } b: addReview(authorID: \"1234\", upc: \"top-2\", review: \"c14-second\") { body author { id username } } }"],
  [id |-> "m_defer",     text |-> "mutation { addReview(authorID: \"7777\", upc: \"top-2\", review: \"c14-deferred\") { body ... @defer { author { id username } } } }"]
>>
=============================================================================
