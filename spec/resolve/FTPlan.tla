------------------------------- MODULE FTPlan -------------------------------
(* C08 part (a): what a flat plan (the input of postprocess.Processor) is and  *)
(* what any fetch tree produced for it must satisfy.                           *)
(*                                                                             *)
(* A case is a record                                                          *)
(*   n    number of planned fetches, ids 1..n                                  *)
(*   deps deps[f] = declared DependsOnFetchIDs of f (a DAG, ids in any order)  *)
(*   ds   ds[f]   = data source of f                                           *)
(*   ent  ent[f]  = f is an entity fetch (candidate for createMultiFetch)      *)
(*   kind kind[f] = response-path pattern of f (index into the menu below)     *)
(*   cls  cls[f]  = smallest id of the fetches whose request is identical to   *)
(*                  f's (deduplicateSingleFetches keeps one of them)           *)
(* (read back from JSON the sets arrive as sequences: the trace spec converts). *)
EXTENDS FetchTree

DepsOf(c, f) == c.deps[f]

\* response-path menu: where the fetch reads (ResponsePath) and what it merges below it (MergePath)
RPMenu == << <<>>, <<>>,      <<"a">>, <<"a">>,  <<"a", "b">>, <<"c">> >>
MPMenu == << <<>>, <<"a">>,   <<>>,    <<"b">>,  <<>>,         <<>>    >>
NKinds == Len(RPMenu)
RP(c, f) == RPMenu[c.kind[f]]
MP(c, f) == MPMenu[c.kind[f]]

IsPrefix(p, q) == Len(p) <= Len(q) /\ SubSeq(q, 1, Len(p)) = p
\* g provides (part of) what a fetch located at `path` reads: g merges at RP(g) \o MP(g), and a fetch
\* that only adds fields to the object at RP(g) (empty merge path) provides everything strictly below it.
\* This is the rule of addMissingNestedDependencies.providedPathByNode.
Provides(c, g, path) ==
  IF RP(c, g) = <<>> THEN IsPrefix(MP(c, g), path)
  ELSE IF MP(c, g) = <<>> THEN IsPrefix(RP(c, g), path) /\ Len(path) > Len(RP(c, g))
  ELSE IsPrefix(RP(c, g) \o MP(c, g), path)
\* a nested fetch without declared dependencies depends on every fetch that provides its location
Nested(c, f) == IF RP(c, f) # <<>> /\ DepsOf(c, f) = {}
                THEN {g \in 1..c.n : g # f /\ Provides(c, g, RP(c, f))}
                ELSE {}
AugDeps(c) == [f \in 1..c.n |-> DepsOf(c, f) \cup Nested(c, f)]

RECURSIVE ReachN(_, _, _, _)
ReachN(n, D, S, k) == IF k = 0 THEN S ELSE ReachN(n, D, S \cup UNION {D[x] : x \in S}, k - 1)
\* everything f depends on, transitively
Closure(n, D, f) == ReachN(n, D, D[f], n)
Acyclic(n, D) == \A f \in 1..n : f \notin Closure(n, D, f)

Reps(c, cls) == {cls[f] : f \in 1..c.n}
\* identical requests have the same dependencies (up to identical requests) and are distinct otherwise
ClsOK(c) == \A f \in 1..c.n :
               /\ c.cls[f] <= f /\ c.cls[c.cls[f]] = c.cls[f]
               /\ {c.cls[d] : d \in DepsOf(c, f)} = {c.cls[d] : d \in DepsOf(c, c.cls[f])}
               /\ c.ds[f] = c.ds[c.cls[f]] /\ c.ent[f] = c.ent[c.cls[f]] /\ c.kind[f] = c.kind[c.cls[f]]

\* ---- the relation between a case and a tree produced for it ------------------------------------
\* mode = [dedup |-> BOOLEAN, multi |-> BOOLEAN]
ClsUsed(c, mode) == IF mode.dedup THEN c.cls ELSE [f \in 1..c.n |-> f]
\* exactly one request per class of identical requests, nothing else
OncePerClass(c, cls, t) ==
  LET ms == MemberSeq(t) IN
  /\ Range(ms) \subseteq 1..c.n
  /\ Len(ms) = Cardinality(Reps(c, cls))
  /\ {cls[x] : x \in Range(ms)} = Reps(c, cls)
RepIn(c, cls, t, x) == CHOOSE y \in Members(t) : cls[y] = cls[x]
Ordered(c, cls, t) ==
  LET D == AugDeps(c) P == Prec(t) IN
  \A f \in 1..c.n : \A d \in D[f] : cls[d] # cls[f] => <<RepIn(c, cls, t, d), RepIn(c, cls, t, f)>> \in P
RECURSIVE MergesOK(_, _, _)
\* only entity fetches of one data source may share a request, and only when the stage is enabled
MergesOK(c, mode, t) ==
  IF t.k = "F"
  THEN Len(t.m) > 1 => /\ mode.multi
                       /\ \A x \in Range(t.m) : c.ent[x] /\ c.ds[x] = c.ds[t.id]
  ELSE \A i \in DOMAIN t.c : MergesOK(c, mode, t.c[i])

Verdict(c, mode, t) ==
  LET cls == ClsUsed(c, mode) IN
  IF ~ShapeOK(t) THEN "shape"
  ELSE IF ~OncePerClass(c, cls, t) THEN "lost-or-duplicated-fetch"
  ELSE IF ~Ordered(c, cls, t) THEN "dependency-not-ordered"
  ELSE IF ~MergesOK(c, mode, t) THEN "illegal-merge"
  ELSE "ok"
=============================================================================
