CONSTANTS
  MaxF = 2
  OrdF = 1
SPECIFICATION GenSpec
CONSTRAINT Emit
CHECK_DEADLOCK FALSE
