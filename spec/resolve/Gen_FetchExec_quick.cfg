CONSTANTS
  MaxF = 2
  OrdF = 1
  MultiKinds = {"Transport", "NonJSON", "PartialData", "RateLimited", "WrongEntityCount"}
SPECIFICATION GenSpec
CONSTRAINT Emit
CHECK_DEADLOCK FALSE
