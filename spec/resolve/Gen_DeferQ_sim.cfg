CONSTANTS
  MaxF = 4
  MaxActs = 7
  MaxSub = 3
SPECIFICATION GenSpec
CONSTRAINT GenConstraint
CHECK_DEADLOCK FALSE
