---------------------------- MODULE Gen_FTTrees ----------------------------
(* Prints every initial state of MC_FT (every alternating Sequence/Parallel    *)
(* tree over 1..n, n <= MaxN, with the dependency graph chosen by Family) as   *)
(* a plan for Gen_FTRun / harness/cmd/ftexec.                                  *)
EXTENDS MC_FT, Json
TreesSpec == Init /\ [][FALSE]_vars
EmitTree == PrintT(ToJson([tree |-> tree, deps |-> deps]))
=============================================================================
