CONSTANTS
  TransitiveSkip = TRUE
  FaultMaxN = 0
  MaxN = 5
  Family = "max"
SPECIFICATION Spec
INVARIANTS TypeOK Theorem ExactlyOnceStarted OrderIndependent SettleIsReachable
