----------------------------- MODULE Gen_FTRun -----------------------------
(* Generator for C08 part (b): every schedule of every tree of the list in     *)
(* IOEnv.TREES (one JSON line [tree, deps] per plan: trees enumerated by       *)
(* MC_FT!T and trees exported from the real post-processor).  A schedule is a  *)
(* sequence of steps the gate scheduler can force:                             *)
(*   P f   release f from ld.prepare; it prepares and parks at ds.load         *)
(*   F f   release f from ds.load; it is loaded and merged, successors arrive  *)
(* and, if Probes, exactly one lock probe                                      *)
(*   PH f / FH f   like P / F but f parks INSIDE the critical section          *)
(*                 (ld.prepared / ld.merging)                                  *)
(*   TP g / TF g   g is released while f holds the lock (it must not get in)   *)
(*   U f           f leaves the critical section; f and g finish their steps   *)
(* Requests arrive at ld.prepare on their own as soon as the tree allows:      *)
(* every step carries the arrivals the specification expects after it.         *)
EXTENDS FTRun, Json, IOUtils
CONSTANTS Probes
Plans == ndJsonDeserialize(IOEnv.TREES)
VARIABLES idx, s, hist, probed
gvars == <<idx, s, hist, probed>>

Tree == Plans[idx].tree
D == [f \in LeafIds(Tree) |-> Range(Plans[idx].deps[f])]
\* the request whose data source fails with a transport error (0 = none)
Terr == Plans[idx].terr

\* eager arrival of every request the tree has activated
EnterAll(x) == [x EXCEPT !.ph = [f \in LeafIds(Tree) |-> IF x.ph[f] = 0 /\ Active(Tree, x, f) THEN 1 ELSE x.ph[f]]]
Arrived(x, y) == {f \in LeafIds(Tree) : x.ph[f] = 0 /\ y.ph[f] = 1}

\* P of a request that reads from a failed / skipped request: it is skipped (and whoever waited for it proceeds)
CanP(x, f) == CanPrepared(x, f)
PEff(x, f) == IF D[f] \cap x.bad # {} THEN SkippedEff(Tree, x, f)
              ELSE DsEff(LoadEff(PreparedEff(Tree, D, x, f), f), f)
CanF(x, f) == CanLoaded(x, f, f = Terr) /\ x.lock = 0
FEff(x, f) == MergedEff(Tree, MergingEff(LoadedEff(x, f, f = Terr), f), f)
CanDo(x, f, a) == IF a = "P" THEN CanP(x, f) ELSE CanF(x, f)
Eff(x, f, a) == IF a = "P" THEN PEff(x, f) ELSE FEff(x, f)

GenInit ==
  /\ idx \in 1..Len(Plans)
  /\ s = EnterAll(S0(Plans[idx].tree))
  /\ hist = <<>>
  /\ probed = FALSE

Plain == \E f \in LeafIds(Tree) : \E a \in {"P", "F"} :
  /\ CanDo(s, f, a)
  /\ LET y == EnterAll(Eff(s, f, a)) IN
       /\ s' = y
       /\ hist' = Append(hist, [f |-> f, a |-> a, exp |-> Arrived(Eff(s, f, a), y)])
  /\ UNCHANGED <<idx, probed>>

\* f enters the critical section first and stays, g is released and has to wait for the lock
Probe == \E f, g \in LeafIds(Tree) : \E a, b \in {"P", "F"} :
  /\ Probes /\ ~probed /\ f # g
  /\ CanDo(s, f, a) /\ CanDo(s, g, b)
  \* (a request that is going to be skipped never enters ld.prepared: no probe on it)
  /\ (a = "P" => D[f] \cap s.bad = {}) /\ (b = "P" => D[g] \cap Eff(s, f, a).bad = {})
  /\ LET x == Eff(Eff(s, f, a), g, b) y == EnterAll(x) IN
       /\ s' = y
       /\ hist' = hist \o << [f |-> f, a |-> a \o "H", exp |-> {}],
                             [f |-> g, a |-> "T" \o b, exp |-> {}],
                             [f |-> f, a |-> "U", exp |-> Arrived(x, y)] >>
  /\ probed' = TRUE
  /\ UNCHANGED idx

GenNext == Plain \/ Probe
GenSpec == GenInit /\ [][GenNext]_gvars

Emit == IF Finished(Tree, s) /\ (Probes => probed)
        THEN PrintT(ToJson([idx |-> idx, init |-> {f \in LeafIds(Tree) : S0(Tree).ph[f] = 0 /\ EnterAll(S0(Tree)).ph[f] = 1},
                            steps |-> hist]))
        ELSE TRUE
\* the model's own invariants hold on everything it generates
GenOK == DepsRespected(Tree, D, s) /\ SawAllDeps(Tree, D, s)
GenConstraint == Emit
=============================================================================
