---------------------------- MODULE DeferStream ----------------------------
(* C10 - the ACCEPTOR of @defer frame sequences and the reconstruction      *)
(* function.  Pure operators (no variables): the same definitions judge the   *)
(* frames emitted by the model (Defer.tla, model checking) and the frames     *)
(* recorded from the real engine (Trace_DeferStream.tla).                     *)
(*                                                                           *)
(* A frame, as far as the protocol is concerned, is                           *)
(*   [ok, pending, inc, completed, hasNext]                                   *)
(*   ok        the flushed chunk was exactly one JSON document of frame shape  *)
(*   pending   sequence of ids announced ("pending":[{id,path,label?}])        *)
(*   inc       sequence of ids of the incremental items                        *)
(*   completed sequence of ids of the completed entries                        *)
(*   hasNext   the frame's hasNext member                                      *)
(* Property clauses (properties.jsonl C10) and the tag that reports them:      *)
(*   frames are never interleaved                       FramesAtomic           *)
(*   every announced id is completed exactly once       CompletedOnceAfterPending *)
(*     and only after it was announced                                         *)
(*   nothing is delivered for an unannounced id         NothingForUnannounced  *)
(*   hasNext false on the last frame and only there     HasNextFalseExactlyLast *)
(***************************************************************************)
EXTENDS Integers, Sequences, FiniteSets, TLC

SeqRange(s) == {s[i] : i \in DOMAIN s}
NoDup(s) == \A i, j \in DOMAIN s : i # j => s[i] # s[j]

\* acceptor state
StreamInit == [announced |-> {}, completed |-> {}, ended |-> FALSE, nframes |-> 0, bad |-> {}]

Tag(cond, name) == IF cond THEN {name} ELSE {}

\* consume one frame
StreamStep(s, f) ==
  LET ann == s.announced \cup SeqRange(f.pending)
      bad ==
        \* a chunk that is not one well-formed frame = bytes of two frames interleaved / torn
        Tag(~f.ok, "FramesAtomic")
        \* a frame after the frame that said hasNext:false
        \cup Tag(s.ended, "HasNextFalseExactlyLast")
        \* an id is announced at most once
        \cup Tag(~NoDup(f.pending) \/ SeqRange(f.pending) \cap s.announced # {}, "CompletedOnceAfterPending")
        \* completed: announced (earlier or in this frame), not completed before, once per frame
        \cup Tag(~NoDup(f.completed) \/ SeqRange(f.completed) \cap s.completed # {}, "CompletedOnceAfterPending")
        \cup Tag(~(SeqRange(f.completed) \subseteq ann), "CompletedOnceAfterPending")
        \* data only for ids that are announced and still open
        \cup Tag(~(SeqRange(f.inc) \subseteq ann) \/ SeqRange(f.inc) \cap s.completed # {}, "NothingForUnannounced")
  IN [announced |-> ann,
      completed |-> s.completed \cup SeqRange(f.completed),
      ended     |-> ~f.hasNext,
      nframes   |-> s.nframes + 1,
      bad       |-> s.bad \cup bad]

\* the stream is over (Complete was called / the writer was closed)
StreamEnd(s) ==
  s.bad
  \cup Tag(s.nframes = 0 \/ ~s.ended, "HasNextFalseExactlyLast")
  \cup Tag(s.announced # s.completed, "CompletedOnceAfterPending")

RECURSIVE StreamRun(_, _)
StreamRun(s, fs) == IF fs = <<>> THEN s ELSE StreamRun(StreamStep(s, Head(fs)), Tail(fs))

\* verdict on a prefix (safety part) and on a finished stream
PrefixVerdict(fs) == StreamRun(StreamInit, fs).bad
FinalVerdict(fs)  == StreamEnd(StreamRun(StreamInit, fs))

----------------------------------------------------------------------------
(* The execution tree of a @defer plan (postprocess/build_defer_tree.go).     *)
RECURSIVE SetToSeq(_)
\* ascending (printPendingEntries sorts by id; buildDeferTree sorts siblings by id)
SetToSeq(S) == IF S = {} THEN <<>>
               ELSE LET m == CHOOSE x \in S : \A y \in S : x <= y IN <<m>> \o SetToSeq(S \ {m})

(* buildDeferTree: uniform node shape [k, g, c]                              *)
(*   k = "S" Single(group g)   k = "Q" Sequence(<<Single(parent), subtree>>)  *)
(*   k = "P" Parallel(children sorted by id)     "-" no tree                   *)
SingleN(g) == [k |-> "S", g |-> g, c |-> <<>>]
RECURSIVE Chain(_, _, _)
\* par = the parent function, gs = the ids that have a group
Chain(g, par, gs) ==
  LET kids == {i \in gs : par[i] = g}
      ks == SetToSeq(kids)
  IN IF kids = {} THEN SingleN(g)
     ELSE [k |-> "Q", g |-> 0,
           c |-> <<SingleN(g),
                   IF Len(ks) = 1 THEN Chain(ks[1], par, gs)
                   ELSE [k |-> "P", g |-> 0, c |-> [i \in 1..Len(ks) |-> Chain(ks[i], par, gs)]]>>]

BuildTree(par, gs) ==
  LET roots == SetToSeq({i \in gs : par[i] = 0})
  IN IF roots = <<>> THEN [k |-> "-", g |-> 0, c |-> <<>>]
     ELSE IF Len(roots) = 1 THEN Chain(roots[1], par, gs)
     ELSE [k |-> "P", g |-> 0, c |-> [i \in 1..Len(roots) |-> Chain(roots[i], par, gs)]]


(***************************************************************************)
(* Reconstruction.  JSON values are tagged records so that TLC can compare    *)
(* any two of them:                                                           *)
(*   [t |-> "o", o |-> [key |-> value]]   object (a record: unordered)         *)
(*   [t |-> "l", l |-> <<values>>]        list                                 *)
(*   [t |-> "s"|"i"|"f"|"b"|"n", s |-> "text"]  leaf, always rendered as text  *)
(* A path element is [t |-> "k", k |-> "name"] or [t |-> "x", x |-> index].    *)
(***************************************************************************)
Broken(why) == [t |-> "!", s |-> why]

RECURSIVE DeepMerge(_, _)
\* add the members of b to a; members present on both sides are merged recursively,
\* a leaf that is delivered twice must carry the same value
DeepMerge(a, b) ==
  IF a.t = "o" /\ b.t = "o"
  THEN [t |-> "o",
        o |-> [k \in (DOMAIN a.o) \cup (DOMAIN b.o) |->
                 IF k \in DOMAIN a.o /\ k \in DOMAIN b.o THEN DeepMerge(a.o[k], b.o[k])
                 ELSE IF k \in DOMAIN a.o THEN a.o[k] ELSE b.o[k]]]
  ELSE IF a.t = "l" /\ b.t = "l" /\ Len(a.l) = Len(b.l)
  THEN [t |-> "l", l |-> [i \in 1..Len(a.l) |-> DeepMerge(a.l[i], b.l[i])]]
  ELSE IF a.t = b.t /\ a.t \notin {"o", "l", "!"} /\ a.s = b.s THEN a
  ELSE Broken("conflicting values delivered for the same position")

RECURSIVE ApplyAt(_, _, _)
\* apply incremental data at path (= pending.path ++ subPath)
ApplyAt(doc, path, data) ==
  IF path = <<>> THEN DeepMerge(doc, data)
  ELSE LET h == Head(path) IN
    IF h.t = "k" /\ doc.t = "o" /\ h.k \in DOMAIN doc.o
    THEN [t |-> "o", o |-> [k \in DOMAIN doc.o |-> IF k = h.k THEN ApplyAt(doc.o[k], Tail(path), data) ELSE doc.o[k]]]
    ELSE IF h.t = "x" /\ doc.t = "l" /\ h.x + 1 \in 1..Len(doc.l)
    THEN [t |-> "l", l |-> [i \in 1..Len(doc.l) |-> IF i = h.x + 1 THEN ApplyAt(doc.l[i], Tail(path), data) ELSE doc.l[i]]]
    ELSE Broken("announced path does not exist in the data delivered so far")

RECURSIVE IsBroken(_)
IsBroken(v) ==
  CASE v.t = "!" -> TRUE
    [] v.t = "o" -> \E k \in DOMAIN v.o : IsBroken(v.o[k])
    [] v.t = "l" -> \E i \in DOMAIN v.l : IsBroken(v.l[i])
    [] OTHER -> FALSE
=============================================================================
