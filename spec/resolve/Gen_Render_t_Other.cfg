CONSTANTS
  MaxDepth = 2
  DeepAll = "thorough"
  SeedKinds = {"BigInt", "Custom", "StaticString", "EmptyObject", "EmptyArray", "Null"}
SPECIFICATION Spec
INVARIANTS SpecSelfConsistent WellTypedExact RejectsNaive RejectsSilent RejectsTooFar Emit
CHECK_DEADLOCK FALSE
