------------------------------- MODULE Authz -------------------------------
(* C14 -- "Denied fields never reach the client and denied mutations never    *)
(* reach a subgraph".                                                         *)
(*                                                                            *)
(* Vocabulary                                                                 *)
(*  coordinate family  a set of field coordinates Type.field closed under     *)
(*      "interface declares the field" <-> "type implements the interface"    *)
(*      (Wallet.currency+WalletType1.currency+WalletType2.currency).  A        *)
(*      protection / decision is always given to a whole family, so that the  *)
(*      coordinate of a response position does not depend on whether the      *)
(*      planner looked at the static or at the runtime parent type.           *)
(*  shape   of an operation: per runtime type the response keys, each with    *)
(*      its family, the non-null flag of every list level (nn), and the       *)
(*      sub-shape.  Computed outside the code under test (gqlparser).         *)
(*         Obj     == [v |-> << Variant >>]                                   *)
(*         Variant == [types |-> <<"User">>, fields |-> << Field >>]          *)
(*         Field   == [key, fam, rc, name, nn |-> <<BOOLEAN>>, leaf, obj]    *)
(*  payload a tagged JSON value: [t|->"n"] null, [t|->"s"|"i"|"f"|"b", v|->   *)
(*      text] scalars (value always as text), [t|->"l", v|-><<..>>] lists,    *)
(*      [t|->"o", k|-><<keys>>, v|-><<values>>] objects.                      *)
(*  P, d    protected families and the decision; Deny == {p \in P: d[p]="deny"}*)
(*                                                                            *)
(* Properties (of any payload delivered to the client, given the payload the  *)
(* same operation yields without authorization = "base"):                     *)
(*  NoDeniedValue   a position whose family is denied is null (or absent)     *)
(*  DenialReported  a denied position that is visible carries an error with   *)
(*                  exactly its path; a denied position that is not visible   *)
(*                  (an ancestor was nulled / its fragment was not delivered) *)
(*                  has an error at or below its nearest visible ancestor;    *)
(*                  every null that is not a null of the base has an error at *)
(*                  or below it                                               *)
(*  NullPropagates  no null sits at a non-null position (it went to the       *)
(*                  nearest nullable ancestor like any other null); for       *)
(*                  complete (non-incremental) query responses the data is    *)
(*                  exactly ExecData(shape, base, Deny)                       *)
(*  PrefetchRule    up-front mode: a request all of whose root fields are     *)
(*                  denied is not sent; a mutation / subscription request     *)
(*                  with any denied root field is not sent (both modes: the   *)
(*                  legacy authorizer has AuthorizePreFetch for exactly that) *)
(*  FailClosed      a coordinate for which the authorizer returned an ERROR   *)
(*                  is never delivered with a value (NoDeniedValue with the   *)
(*                  failing family counted as denied)                         *)
(*                                                                            *)
(* Code map: resolve/field_authorization.go (authorizePreFetch, decide),      *)
(* resolvable.go (walkFields/authorizeField, walkUnreachedFields,             *)
(* ResolveDeferBatch), loader.go (isFetchAuthorized, isFetchAuthorizedFrom-   *)
(* Cache), postprocess/collect_authorization_coordinates.go, plan/visitor.go  *)
(* (resolveFieldInfo: HasAuthorizationRule, ExactParentTypeName).             *)
EXTENDS Integers, Sequences, FiniteSets, TLC

AzNull == [t |-> "n"]
AzS(s) == [t |-> "s", v |-> s]
AzL(xs) == [t |-> "l", v |-> xs]
AzO(ks, vs) == [t |-> "o", k |-> ks, v |-> vs]
AzIsNull(x) == x.t = "n"
AzIsObj(x) == x.t = "o"
AzIsList(x) == x.t = "l"
AzInSeq(x, s) == \E i \in DOMAIN s : s[i] = x
AzRange(s) == {s[i] : i \in DOMAIN s}
\* index of the first member with that key, 0 if none
AzKeyIdx(o, key) == IF \E i \in DOMAIN o.k : o.k[i] = key
                    THEN CHOOSE i \in DOMAIN o.k : o.k[i] = key /\ \A h \in 1..(i - 1) : o.k[h] # key
                    ELSE 0
AzTypeName(o) == LET i == AzKeyIdx(o, "__typename") IN
                 IF i = 0 THEN "" ELSE IF o.v[i].t = "s" THEN o.v[i].v ELSE ""
AzIdx(i) == "#" \o ToString(i - 1)
AzIsPrefix(p, q) == Len(p) <= Len(q) /\ \A i \in 1..Len(p) : p[i] = q[i]

AzNoVariant == [types |-> <<>>, fields |-> <<>>]
AzNoField == [key |-> "", fam |-> "", rc |-> "", name |-> "", nn |-> <<FALSE>>, leaf |-> TRUE, obj |-> [v |-> <<>>]]
\* the variant of an object shape that applies to a delivered object: decided by __typename when the
\* runtime types differ in what they select
AzVariantOf(obj, o) ==
  IF Len(obj.v) = 0 THEN AzNoVariant
  ELSE IF Len(obj.v) = 1 THEN obj.v[1]
  ELSE LET tn == AzTypeName(o) IN
       IF \E i \in DOMAIN obj.v : AzInSeq(tn, obj.v[i].types)
       THEN obj.v[CHOOSE i \in DOMAIN obj.v : AzInSeq(tn, obj.v[i].types)]
       ELSE AzNoVariant
\* delivered objects whose variant cannot be determined (harness-level problem, never a verdict)
RECURSIVE AzUndetObj(_, _), AzUndetVal(_, _, _)
AzUndetObj(obj, o) ==
  LET var == AzVariantOf(obj, o) IN
  (IF Len(obj.v) > 1 /\ var = AzNoVariant THEN 1 ELSE 0) +
  LET n == Len(var.fields)
      cnt[i \in 0..n] == IF i = 0 THEN 0
                         ELSE cnt[i - 1] + LET f == var.fields[i]
                                               idx == AzKeyIdx(o, f.key)
                                           IN IF idx = 0 THEN 0 ELSE AzUndetVal(f, 1, o.v[idx])
  IN cnt[n]
AzUndetVal(f, lvl, x) ==
  IF AzIsNull(x) THEN 0
  ELSE IF lvl < Len(f.nn)
       THEN IF AzIsList(x)
            THEN LET n == Len(x.v)
                     cnt[i \in 0..n] == IF i = 0 THEN 0 ELSE cnt[i - 1] + AzUndetVal(f, lvl + 1, x.v[i])
                 IN cnt[n]
            ELSE 0
       ELSE IF f.leaf \/ ~AzIsObj(x) THEN 0 ELSE AzUndetObj(f.obj, x)

(* ------------------------------------------------------------------------ *)
(* Positions of a payload: every field value and every list item, with the   *)
(* family of the field (items: ""), whether it is null and whether its type   *)
(* is non-null at that level.  Uniform records, so they may live in a set.    *)
(* ------------------------------------------------------------------------ *)
RECURSIVE AzPosObj(_, _, _), AzPosVal(_, _, _, _)
AzPosObj(obj, o, path) ==
  LET var == AzVariantOf(obj, o) IN
  UNION { LET f == var.fields[i]
              idx == AzKeyIdx(o, f.key)
          IN IF idx = 0 THEN {} ELSE AzPosVal(f, 1, o.v[idx], Append(path, f.key))
          : i \in DOMAIN var.fields }
AzPosVal(f, lvl, x, path) ==
  {[path |-> path, fam |-> IF lvl = 1 THEN f.fam ELSE "", rc |-> IF lvl = 1 THEN f.rc ELSE "",
    null |-> AzIsNull(x), nonnull |-> f.nn[lvl]]}
  \cup
  IF AzIsNull(x) THEN {}
  ELSE IF lvl < Len(f.nn)
       THEN IF AzIsList(x)
            THEN UNION {AzPosVal(f, lvl + 1, x.v[i], Append(path, AzIdx(i))) : i \in DOMAIN x.v}
            ELSE {}
       ELSE IF f.leaf \/ ~AzIsObj(x) THEN {} ELSE AzPosObj(f.obj, x, path)
Positions(shape, data) == IF AzIsObj(data) THEN AzPosObj(shape, data, <<>>) ELSE {}
PathsOf(pos) == {p.path : p \in pos}

(* ------------------------------------------------------------------------ *)
(* The four properties as relations over observations.                        *)
(* ------------------------------------------------------------------------ *)
\* Deny holds families (the whole family is denied) and single coordinates (only the field of that runtime
\* type is denied while the rest of its family is allowed): the coordinate of a position is the coordinate
\* of the runtime type's field, rc
AzDenied(p, Deny) == p.fam \in Deny \/ p.rc \in Deny
NoDeniedValue(pos, Deny) == \A p \in pos : AzDenied(p, Deny) => p.null
LeakedAt(pos, Deny) == {p \in pos : AzDenied(p, Deny) /\ ~p.null}

NullConsistent(pos) == \A p \in pos : p.null => ~p.nonnull

\* nearest visible ancestor (longest proper prefix that is a position of the payload; <<>> = the data root)
AzAnchor(path, paths) ==
  LET cands == {n \in 0..(Len(path) - 1) : n = 0 \/ SubSeq(path, 1, n) \in paths}
      best == CHOOSE n \in cands : \A m \in cands : m <= n
  IN SubSeq(path, 1, best)
ErrAtOrBelow(path, errs) == \E e \in errs : AzIsPrefix(path, e)
\* denied positions of the base payload whose denial the client is not told about
\* rootErr: an error without a path exists and may stand for a denial hidden below the data root (only granted to
\* hand-built plans with several root fields in one mutation / subscription request, where the skipped request
\* also takes the allowed siblings away and the code reports "Unauthorized request to Subgraph" without a path)
Unreported(pos, basePos, Deny, errs, rootErr) ==
  LET paths == PathsOf(pos) IN
  {b \in basePos : AzDenied(b, Deny) /\
      IF b.path \in paths THEN b.path \notin errs
      ELSE LET a == AzAnchor(b.path, paths) IN ~(ErrAtOrBelow(a, errs) \/ (rootErr /\ a = <<>>))}
\* nulls the base does not have and no error explains
Unexplained(pos, basePos, errs) ==
  {p \in pos : p.null /\ (\E b \in basePos : b.path = p.path /\ ~b.null) /\ ~ErrAtOrBelow(p.path, errs)}
\* explain = FALSE for mutation / subscription plans whose request carries several root fields: the allowed
\* siblings of a denied root field are null because the request had to be skipped, which the statement asks for
DenialReported(pos, basePos, Deny, errs, explain, pathless) ==
  Unreported(pos, basePos, Deny, errs, ~explain /\ pathless) = {} /\ (explain => Unexplained(pos, basePos, errs) = {})

\* one subgraph request: [kind |-> "query"|"mutation"|"subscription", roots |-> <<family>>]
ReqAllowed(r, Deny, mode) ==
  LET denied == {i \in DOMAIN r.roots : r.roots[i] \in Deny} IN
  /\ (mode \in {"batch", "both"} /\ Len(r.roots) > 0) => denied # DOMAIN r.roots
  /\ (r.kind # "query") => denied = {}
PrefetchRule(reqs, Deny, mode) == \A i \in DOMAIN reqs : ReqAllowed(reqs[i], Deny, mode)

(* ------------------------------------------------------------------------ *)
(* Reference model: execute with authorization over a base payload.           *)
(* A denied field resolves to null (+ an error at its path); a null at a      *)
(* non-null level fails its parent (ordinary null propagation).               *)
(* ------------------------------------------------------------------------ *)
AzFail == [ok |-> FALSE, v |-> AzNull]
AzOk(x) == [ok |-> TRUE, v |-> x]
RECURSIVE AzExObj(_, _, _), AzExVal(_, _, _, _)
AzExVal(f, lvl, x, Deny) ==
  IF AzIsNull(x) THEN (IF f.nn[lvl] THEN AzFail ELSE AzOk(AzNull))
  ELSE IF lvl < Len(f.nn)
       THEN IF ~AzIsList(x) THEN AzOk(x)
            ELSE LET items == [i \in DOMAIN x.v |-> AzExVal(f, lvl + 1, x.v[i], Deny)] IN
                 IF \E i \in DOMAIN x.v : ~items[i].ok
                 THEN (IF f.nn[lvl] THEN AzFail ELSE AzOk(AzNull))
                 ELSE AzOk(AzL([i \in DOMAIN x.v |-> items[i].v]))
       ELSE IF f.leaf \/ ~AzIsObj(x) THEN AzOk(x)
            ELSE LET r == AzExObj(f.obj, x, Deny) IN
                 IF r.ok THEN r ELSE IF f.nn[lvl] THEN AzFail ELSE AzOk(AzNull)
AzExObj(obj, o, Deny) ==
  LET var == AzVariantOf(obj, o)
      FieldOf(key) == IF \E i \in DOMAIN var.fields : var.fields[i].key = key
                      THEN var.fields[CHOOSE i \in DOMAIN var.fields : var.fields[i].key = key]
                      ELSE AzNoField
      res == [i \in DOMAIN o.k |->
                LET f == FieldOf(o.k[i]) IN
                IF f.key = "" THEN AzOk(o.v[i])
                ELSE IF AzDenied(f, Deny)
                     THEN (IF f.nn[1] THEN AzFail ELSE AzOk(AzNull))
                     ELSE AzExVal(f, 1, o.v[i], Deny)]
  IN IF \E i \in DOMAIN o.k : ~res[i].ok THEN AzFail
     ELSE AzOk(AzO(o.k, [i \in DOMAIN o.k |-> res[i].v]))
ExecData(shape, base, Deny) ==
  IF AzIsObj(base) THEN LET r == AzExObj(shape, base, Deny) IN IF r.ok THEN r.v ELSE AzNull
  ELSE base
\* errors of the reference execution: the denied positions no denied ancestor hides
ExecErrs(basePos, Deny) ==
  {b.path : b \in {c \in basePos : AzDenied(c, Deny) /\
                     ~\E a \in basePos : AzDenied(a, Deny) /\ a.path # c.path /\ AzIsPrefix(a.path, c.path)}}

\* structural equality that never compares values of different shapes
RECURSIVE AzSame(_, _)
AzSame(a, b) ==
  /\ a.t = b.t
  /\ CASE a.t = "n" -> TRUE
       [] a.t = "l" -> Len(a.v) = Len(b.v) /\ \A i \in DOMAIN a.v : AzSame(a.v[i], b.v[i])
       [] a.t = "o" -> Len(a.k) = Len(b.k) /\ (\A i \in DOMAIN a.k : a.k[i] = b.k[i])
                       /\ \A i \in DOMAIN a.v : AzSame(a.v[i], b.v[i])
       [] OTHER -> a.v = b.v
ExactData(shape, base, Deny, data) == AzSame(ExecData(shape, base, Deny), data)

\* reference decision of the loader: is the request sent?
SentByModel(r, Deny, mode) ==
  LET nDenied == Cardinality({i \in DOMAIN r.roots : r.roots[i] \in Deny}) IN
  IF mode \in {"batch", "both"}
  THEN IF r.kind # "query" THEN nDenied = 0 ELSE ~(Len(r.roots) > 0 /\ nDenied = Len(r.roots))
  ELSE IF r.kind = "query" THEN TRUE ELSE nDenied = 0
=============================================================================
