CONSTANT K = 4
SPECIFICATION SchedSpec
CONSTRAINT Emit
CHECK_DEADLOCK FALSE
