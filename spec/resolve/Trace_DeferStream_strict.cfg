SPECIFICATION TraceSpec
CONSTRAINT HighWater
INVARIANT Accepted
POSTCONDITION TraceConsumed
CHECK_DEADLOCK FALSE
