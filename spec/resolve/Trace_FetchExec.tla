--------------------------- MODULE Trace_FetchExec ---------------------------
(* Trace validation for C07: the ld.* hook events of the real loader, the       *)
(* requests seen by the in-process subgraphs and the response, recorded by      *)
(* harness/cmd/faults under TLC-chosen fault assignments, must be a behaviour   *)
(* of FetchExec; the invariants of FetchExec and the degradation relation are   *)
(* evaluated on the recorded values.  One event = one action; traces are        *)
(* concatenated ("reset" carries the instance of the next one).                 *)
EXTENDS FetchDegrade, Json, TLCExt, IOUtils
TraceLog == ndJsonDeserialize(IOEnv.TRACE)
VARIABLES l, ph, lock, cnt, same
tvars == <<vars, l, ph, lock, cnt, same>>
Ev == TraceLog[l]
IsEvent(e) == l <= Len(TraceLog) /\ Ev.ev = e /\ l' = l + 1

TraceInit ==
  /\ l = 1
  /\ TLCSet(1, 0)
  /\ inst = [n |-> 1, tree |-> Leaf(1), deps |-> <<{}>>, fault |-> <<"ok">>, e0 |-> <<{1}>>]
  /\ InitState
  /\ ph = "ended" /\ lock = 0 /\ cnt = 0 /\ same = <<1>>

T_Reset ==
  /\ IsEvent("reset")
  /\ ph = "ended"
  /\ inst' = [n |-> Ev.n, tree |-> Ev.tree,
              deps |-> [f \in 1..Ev.n |-> SetOf(Ev.deps[f])],
              fault |-> [f \in 1..Ev.n |-> Ev.fault[f]],
              e0 |-> [f \in 1..Ev.n |-> SetOf(Ev.e0[f])]]
  /\ st' = [f \in 1..Ev.n |-> "pending"]
  /\ errored' = {}
  /\ ents' = [f \in 1..Ev.n |-> {}]
  /\ sent' = {}
  /\ rep' = [f \in 1..Ev.n |-> 0]
  /\ ph' = "run" /\ lock' = 0 /\ cnt' = 0 /\ same' = [f \in 1..Ev.n |-> 1]

Running == ph = "run" /\ Ev.f \in Ids
Keep == UNCHANGED <<ph, lock, cnt, same>>

\* preparePhase runs under the data lock: never inside another fetch's merge.  The loader's DECISION (skip or
\* prepare) is taken from the log as it is; whether it was the right one is judged by SkipJustified /
\* SkipHonoured / Independent, so that a wrong decision is reported as a false invariant and not as a stuck trace.
T_Skipped  == /\ IsEvent("ld.skipped") /\ Running /\ lock = 0 /\ Keep
              /\ CanStart(Ev.f)
              /\ st' = [st EXCEPT ![Ev.f] = "skipped"]
              /\ errored' = errored \cup {Ev.f}
              /\ UNCHANGED <<inst, ents, sent, rep>>
T_Prepared == /\ IsEvent("ld.prepared") /\ Running /\ lock = 0 /\ Keep
              /\ CanStart(Ev.f)
              /\ st' = [st EXCEPT ![Ev.f] = "prepared"]
              /\ UNCHANGED <<inst, errored, ents, sent, rep>>
\* the rate limiter of the harness denied the rendered request (logged inside RateLimitPreFetch)
T_Deny     == IsEvent("deny") /\ Running /\ Keep /\ Deny(Ev.f)
T_Load     == /\ IsEvent("ld.load") /\ Running /\ Keep
              /\ IF Ev.b = 1 THEN (IF st[Ev.f] = "denied" THEN UNCHANGED vars ELSE NoLoad(Ev.f))
                 ELSE st[Ev.f] = "prepared" /\ UNCHANGED vars
T_Req      == /\ IsEvent("req") /\ Running
              /\ Send(Ev.f, SetOf(Ev.ents))
              /\ same' = [same EXCEPT ![Ev.f] = Ev.same]
              /\ UNCHANGED <<ph, lock, cnt>>
T_Loaded   == /\ IsEvent("ld.loaded") /\ Running /\ Keep
              /\ LoadEnd(Ev.f)
              /\ (Ev.b = 1) <=> (st'[Ev.f] = "loadedErr")
T_Merging  == /\ IsEvent("ld.merging") /\ Running /\ lock = 0
              /\ st[Ev.f] \in {"loaded", "loadedErr", "noload", "denied"}
              /\ lock' = Ev.f /\ cnt' = Ev.b
              /\ UNCHANGED <<vars, ph, same>>
T_Merged   == /\ IsEvent("ld.merged") /\ Running /\ lock = Ev.f /\ Ev.b >= cnt
              /\ Merge(Ev.f, Ev.b - cnt)
              /\ lock' = 0
              /\ UNCHANGED <<ph, cnt, same>>
\* the client's response: only after every planned fetch reached a terminal state
T_Response == /\ IsEvent("response") /\ ph = "run" /\ lock = 0
              /\ AllFetchesDone
              /\ ph' = "ended"
              /\ UNCHANGED <<vars, lock, cnt, same>>
\* fault, then repeat: the same operation executed once more, fault-free, on the same gateway
T_Repeat   == /\ IsEvent("repeat") /\ ph = "ended" /\ l > 1 /\ TraceLog[l - 1].ev = "response"
              /\ UNCHANGED <<vars, ph, lock, cnt, same>>
T_End      == IsEvent("end") /\ ph = "ended" /\ UNCHANGED <<vars, ph, lock, cnt, same>>

TraceNext == T_Reset \/ T_Skipped \/ T_Prepared \/ T_Deny \/ T_Load \/ T_Req \/ T_Loaded \/ T_Merging \/ T_Merged
             \/ T_Response \/ T_Repeat \/ T_End
TraceSpec == TraceInit /\ [][TraceNext]_tvars

\* a fetch with an errored dependency is dropped, not prepared (errored is final for a dependency once f starts)
SkipHonoured == \A f \in Ids : st[f] \notin {"pending", "skipped"} => inst.deps[f] \cap errored = {}
\* the request carries the same operation text (and, for root fetches, the same variables) as its fault-free counterpart
SameOperation == \A f \in sent : same[f] = 1
\* the state right after a response event: the response is the line consumed last
Answered == ph = "ended" /\ l > 1 /\ TraceLog[l - 1].ev = "response"
resp == TraceLog[l - 1]
\* one well-formed JSON document arrived
ResponseWellFormed == Answered => resp.arrived = 1 /\ resp.valid = 1
\* at least one error is reported when a request failed
ErrorsNonEmpty == Answered => (Failed # {} => resp.nerr >= 1)
\* data: unaffected parts identical, affected parts null-propagated
Isolated == (Answered /\ resp.hasdata = 1) => Deg(resp.a, resp.x)

-----------------------------------------------------------------------------
(* Subgraph error propagation (ResolverOptions.SubgraphErrorPropagationMode = PassThrough, RewriteSubgraphErrorPaths).    *)
(* resp.mode: 0 = errors are wrapped (nothing to relate), 1 = pass-through, 2 = pass-through with rewritten paths.        *)
(* resp.errs: one record per error the faulty subgraph answers carried:                                                   *)
(*   found   an error with that message is in the client's errors                                                          *)
(*   subhas / sub   the subgraph error has a path / that path (root alias of a MultiEntityFetch shown as "_entities")      *)
(*   haspath / got  the client's error has a path / that path                                                              *)
(*   ent     the subgraph path is rooted in an _entities array: <<"_entities", i>> \o rest                                 *)
(*   known / item   the position, in the client's response, of the object the i-th representation was rendered from        *)
(* paths are sequences of [t |-> "s" | "i", v |-> text]                                                                    *)
Names(p) == SelectSeq(p, LAMBDA e : e.t = "s" /\ e.v # "@")
\* the path of a subgraph error at entity index i maps to the response path of the i-th representation's position
ClientPath(e) == IF e.ent = 1 THEN e.item \o e.rest ELSE e.sub
Errs == IF Answered THEN resp.errs ELSE <<>>
\* pass-through: every subgraph error reaches the client with its own path
ErrPathsPass ==
  (Answered /\ resp.mode = 1) =>
     \A i \in DOMAIN Errs : LET e == Errs[i] IN e.found = 1 /\ e.haspath = e.subhas /\ (e.subhas = 1 => e.got = e.sub)
\* rewritten: the client's path names the same fields as the position the error belongs to ...
ErrPathsNames ==
  (Answered /\ resp.mode = 2) =>
     \A i \in DOMAIN Errs : LET e == Errs[i] IN
        e.found = 1 /\ ((e.subhas = 1 /\ e.known = 1) => (e.haspath = 1 /\ Names(e.got) = Names(ClientPath(e))))
\* ... and is that position exactly (a valid GraphQL error path: list indices included, no internal markers)
ErrPathsExact ==
  (Answered /\ resp.mode = 2) =>
     \A i \in DOMAIN Errs : LET e == Errs[i] IN (e.subhas = 1 /\ e.known = 1 /\ e.haspath = 1) => e.got = ClientPath(e)

\* after a failure the gateway is as good as new: the repetition arrives, reports nothing, sends exactly the
\* fault-free requests and returns exactly the fault-free data
RepeatClean ==
  (l > 2 /\ TraceLog[l - 1].ev = "repeat") =>
     LET r == TraceLog[l - 1] IN
       /\ r.arrived = 1 /\ r.valid = 1 /\ r.nerr = 0 /\ r.reqsame = 1
       /\ Same(r.a, r.x)

\* The invariants are evaluated in every state of every trace.  A false invariant is reported (with the line that
\* was consumed last) and validation continues, so that one TLC pass judges every trace of the batch.
Check(name, P) == IF P THEN TRUE ELSE PrintT(<<"C07_VIOLATED", name, l - 1>>)
Judge ==
  /\ Check("NoFabrication", NoFabrication)
  /\ Check("SameOperation", SameOperation)
  /\ Check("Independent", Independent)
  /\ Check("SkipJustified", SkipJustified)
  /\ Check("SkipHonoured", SkipHonoured)
  /\ Check("ErrorReportedPerFetch", ErrorReportedPerFetch)
  /\ Check("DepsSettled", DepsSettled)
  /\ Check("ResponseWellFormed", ResponseWellFormed)
  /\ Check("ErrorsNonEmpty", ErrorsNonEmpty)
  /\ Check("Isolated", Isolated)
  /\ Check("RepeatClean", RepeatClean)
  /\ Check("DeniedNotSent", DeniedNotSent)
  /\ Check("ErrPathsPass", ErrPathsPass)
  /\ Check("ErrPathsNames", ErrPathsNames)
  /\ Check("ErrPathsExact", ErrPathsExact)
HighWater == TLCSet(1, IF l > TLCGet(1) THEN l ELSE TLCGet(1)) /\ Judge
TraceAccepted ==
  IF TLCGet(1) = Len(TraceLog) + 1 THEN TRUE
  ELSE /\ PrintT(<<"TRACE_STUCK_AT_LINE", TLCGet(1)>>)
       /\ FALSE
=============================================================================
