CONSTANTS
  MaxD = 3
  Locked = TRUE
  CanDisconnect = TRUE
  AllGroups = TRUE
SPECIFICATION Spec
INVARIANTS TypeOK FramesAtomic CompletedOnceAfterPending NothingForUnannounced HasNextFalseExactlyLast CounterIsOpen CounterNonNegative ZeroIsLast Reconstructs DeadNeverRuns NoFrameAfterDisconnect
PROPERTIES Terminates
