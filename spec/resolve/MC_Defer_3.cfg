CONSTANTS
  MaxD = 3
  Locked = TRUE
  AllGroups = TRUE
SPECIFICATION Spec
INVARIANTS TypeOK FramesAtomic CompletedOnceAfterPending NothingForUnannounced HasNextFalseExactlyLast CounterIsOpen CounterNonNegative ZeroIsLast Reconstructs DeadNeverRuns
PROPERTIES Terminates
