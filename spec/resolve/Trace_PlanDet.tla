---------------------------- MODULE Trace_PlanDet ----------------------------
(* PlanDeterministic on recorded plannings (harness/cmd/planx -mode det):    *)
(* every line is one planning + execution of a request in a FRESH engine     *)
(* with option set o, in process proc, run number run.  nk identifies the    *)
(* engine's normalized operation (what the plan cache key is computed from), *)
(* vk the canonicalised variable values.                                     *)
(*   plan(c, q, r1) = plan(c, q, r2):  the printed plan (fetch tree incl.    *)
(*   subgraph operations, response shape) is a function of (o, nk);          *)
(*   the multiset of subgraph request bodies is a function of (o, nk, vk);   *)
(*   the response is a function of (nk, vk) - independent of o.              *)
EXTENDS Integers, Sequences, FiniteSets, TLC, Json, TLCExt, IOUtils
TraceLog == ndJsonDeserialize(IOEnv.TRACE)
VARIABLES l, obs, planOf, bodOf, respOf
tvars == <<l, obs, planOf, bodOf, respOf>>
Ev == TraceLog[l]
NoObs == [ev |-> "none"]

TraceInit == /\ l = 1 /\ TLCSet(1, 0)
             /\ obs = NoObs /\ planOf = <<>> /\ bodOf = <<>> /\ respOf = <<>>

PK(e) == <<e.o, e.nk>>
BK(e) == <<e.o, e.nk, e.vk>>
RK(e) == <<e.nk, e.vk>>
Put(f, k, v) == IF k \in DOMAIN f THEN f ELSE f @@ (k :> v)

T_Plan == /\ l <= Len(TraceLog) /\ Ev.ev = "plan" /\ l' = l + 1
          /\ obs' = Ev
          /\ planOf' = Put(planOf, PK(Ev), <<Ev.plan, Ev.shape, Ev.qp>>)
          /\ bodOf' = Put(bodOf, BK(Ev), Ev.bod)
          /\ respOf' = Put(respOf, RK(Ev), Ev.resp)
T_End == /\ l <= Len(TraceLog) /\ Ev.ev = "end" /\ l' = l + 1 /\ obs' = Ev /\ UNCHANGED <<planOf, bodOf, respOf>>
TraceNext == T_Plan \/ T_End
TraceSpec == TraceInit /\ [][TraceNext]_tvars

IsPlan == obs.ev = "plan"
PlanDeterministic == IsPlan => planOf[PK(obs)] = <<obs.plan, obs.shape, obs.qp>>
RequestsDeterministic == IsPlan => bodOf[BK(obs)] = obs.bod
ResponseIndependentOfOptions == IsPlan => respOf[RK(obs)] = obs.resp

HighWater == TLCSet(1, IF l > TLCGet(1) THEN l ELSE TLCGet(1))
TraceAccepted == IF TLCGet(1) = Len(TraceLog) + 1 THEN TRUE
                 ELSE /\ PrintT(<<"TRACE_STUCK_AT_LINE", TLCGet(1)>>)
                      /\ FALSE
=============================================================================
