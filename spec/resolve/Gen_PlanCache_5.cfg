CONSTANTS
  NShapes = 17
  Nms = {0, 1, 2}
  Srcs = {"var", "lit", "dflt"}
  Dirs = {0, 1, 2, 3}
  DSrcs = {"var", "lit"}
  Ops = {0, 1, 2}
  Frs = {0, 1, 2}
  Mos = {0, 1}
  WithInvalid = TRUE
  MaxLen = 5
  GenLen = 5
  Capacity = 1024
  OptionSets = {0}
  Bake = FALSE
  KeyDropsDirs = FALSE
SPECIFICATION GenSpec
CONSTRAINT GenConstraint
CHECK_DEADLOCK FALSE
