---------------------------- MODULE FetchDegrade ----------------------------
(* C07 - what the response may look like after fetches failed.                 *)
(*                                                                             *)
(* a = the fault-free response data, annotated:                                *)
(*   [t |-> "leaf", nn, src, v]      scalar; v = canonical JSON text              *)
(*   [t |-> "null", nn]               null in the fault-free response              *)
(*   [t |-> "obj",  nn, src, k, c]    object, k = keys (sorted), c = members       *)
(*   [t |-> "list", nn, src, c]       list (its elements carry the list's src)     *)
(*   src = ids of the fetches whose fault-free answers carried this position      *)
(*         (observed provenance); <<>> for the root object, which always exists   *)
(*   nn = 1 iff the position's type is non-null (from the supergraph SDL)       *)
(* x = the response data observed under faults: leaf[v] / null / obj[k,c] / list[c] *)
(*                                                                             *)
(* Deg(a, x): x is a with exactly the parts that depended on a failed request  *)
(* null-propagated: a position all of whose sources are dead must be null, a   *)
(* position with a live, complete source must be unchanged; a null is only     *)
(* allowed where the type is nullable and something below it may be missing    *)
(* (GraphQL null propagation: a missing non-null child nulls its parent).      *)
EXTENDS FetchExec

SetOf(s) == {s[i] : i \in DOMAIN s}
Full(s) == st[s] = "merged" /\ ents[s] = inst.e0[s]
Dead(s) == st[s] \in {"skipped", "empty", "failed"}
MustEq(src)   == \E s \in SetOf(src) : s \in Ids /\ Full(s)
MustNull(src) == src # <<>> /\ \A s \in SetOf(src) : s \in Ids /\ Dead(s)

\* a value that no live source carries any more is missing
RECURSIVE CanFail(_)
CanFail(a) ==
  CASE a.t = "null" -> FALSE
    [] a.t = "leaf" -> a.src # <<>> /\ ~MustEq(a.src)
    [] OTHER -> \/ (a.src # <<>> /\ ~MustEq(a.src))
                \/ \E i \in DOMAIN a.c : a.c[i].nn = 1 /\ CanFail(a.c[i])

RECURSIVE MustFail(_)
MustFail(a) ==
  CASE a.t = "null" -> FALSE
    [] a.t = "leaf" -> MustNull(a.src)
    [] OTHER -> \/ MustNull(a.src)
                \/ \E i \in DOMAIN a.c : a.c[i].nn = 1 /\ MustFail(a.c[i])

RECURSIVE Deg(_, _)
Deg(a, x) ==
  IF a.t = "null" THEN x.t = "null"
  ELSE IF x.t = "null" THEN a.nn = 0 /\ CanFail(a)
  ELSE /\ ~MustFail(a)
       /\ x.t = a.t
       /\ CASE a.t = "leaf" -> x.v = a.v
            [] a.t = "obj"  -> x.k = a.k /\ \A i \in DOMAIN a.c : Deg(a.c[i], x.c[i])
            [] OTHER        -> Len(x.c) = Len(a.c) /\ \A i \in DOMAIN a.c : Deg(a.c[i], x.c[i])

\* x is exactly the fault-free data a (used for the fault-free repetition of the operation on the same gateway)
RECURSIVE Same(_, _)
Same(a, x) ==
  /\ x.t = a.t
  /\ CASE a.t = "null" -> TRUE
       [] a.t = "leaf" -> x.v = a.v
       [] a.t = "obj"  -> x.k = a.k /\ \A i \in DOMAIN a.c : Same(a.c[i], x.c[i])
       [] OTHER        -> Len(x.c) = Len(a.c) /\ \A i \in DOMAIN a.c : Same(a.c[i], x.c[i])
=============================================================================
