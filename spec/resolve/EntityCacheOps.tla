--------------------------- MODULE EntityCacheOps ---------------------------
(* C16 -- operators shared by the entity-cache model (EntityCache) and the    *)
(* trace specification over the recorded call log (Trace_EntityCache).        *)
(* store : key -> [val, exp]   (a function whose DOMAIN is the set of keys     *)
(* currently held), clock : Nat.  An entry is live while exp > clock.          *)
EXTENDS CacheControl

EmptyStore == [k \in {} |-> 0]
Live(store, clock, keys) == {k \in keys \cap DOMAIN store : store[k].exp > clock}
\* all-or-nothing: a batch is served from the cache only if EVERY key was found
FullHit(found, keys) == keys # {} /\ found = keys
Success(status) == status >= 200 /\ status < 300
\* collect only from an error-free successful response with a storable header
CollectAllowed(status, clean, cc, bad, default) == Success(status) /\ clean /\ MayStore(cc, bad, default)
Drop(store, k) == [x \in DOMAIN store \ {k} |-> store[x]]
\* items : key -> [val, ttl]; applied \subseteq DOMAIN items is what the cache really wrote
Put(store, clock, items, applied) ==
  [k \in DOMAIN store \cup applied |->
     IF k \in applied THEN [val |-> items[k].val, exp |-> clock + items[k].ttl] ELSE store[k]]
=============================================================================
