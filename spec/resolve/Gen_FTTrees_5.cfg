CONSTANTS
  TransitiveSkip = TRUE
  FaultMaxN = 0
  MaxN = 5
  Family = "max"
SPECIFICATION TreesSpec
CONSTRAINT EmitTree
CHECK_DEADLOCK FALSE
