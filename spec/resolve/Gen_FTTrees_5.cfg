CONSTANTS
  MaxN = 5
  Family = "max"
SPECIFICATION TreesSpec
CONSTRAINT EmitTree
CHECK_DEADLOCK FALSE
