CONSTANTS
  MaxN = 5
  Stratum = "dedup"
  PathsMaxN = 5
SPECIFICATION GenSpec
CONSTRAINT GenConstraint
CHECK_DEADLOCK FALSE
