-------------------------- MODULE Trace_EntityCache --------------------------
(* Trace validation for C16: the call log recorded by harness/cmd/cachex from  *)
(* the real engine (GetMany / SetMany on the recording cache, the subgraph      *)
(* exchange of every fetch, clock ticks, evictions, end of request; the         *)
(* requests of a history run one after the other or concurrently) is replayed   *)
(* against the entity-cache specification.  The store of the specification is   *)
(* rebuilt from the logged SetMany calls with EntityCacheOps!Put / Drop, every   *)
(* event is judged with the operators of CacheControl / EntityCacheOps and the   *)
(* names of the rules it breaks are put into `flags`.                            *)
(*                                                                               *)
(* Rules (each is an invariant  Rule == name \notin flags):                      *)
(*   CacheTransparent          response of the request = response without cache *)
(*                             (bytes compared by the driver; includes "cache    *)
(*                             failures never fail a request")                   *)
(*   StoredFromCleanSuccess    SetMany only after a 2xx, error-free exchange     *)
(*   StoredOnlyIfAllowed       ... whose header is public, no refusal, not bad   *)
(*   TTLWithinLifetime         0 < ttl <= s-maxage / max-age / default           *)
(*   OneItemPerObjectEntity    items = keys of the lookup, aligned with the      *)
(*                             object-valued entities of the response, same value*)
(*   StoreSound                stored value = true value of (query, representation)*)
(*   StoredWithoutLoad / StoredWithoutKeys   SetMany outside a keyed, loaded fetch *)
(*   PartialNeverServed        a lookup that is not a full hit is followed by a   *)
(*                             load before the request ends                       *)
(*   ServedOnlyStoredLive      what GetMany returned was stored and not expired   *)
(*                             (consistency of the recording cache itself)        *)
(* Batch mode (Trace_EntityCache.cfg) reports flags with PrintT and goes on, the  *)
(* strict configuration lists the rules as INVARIANTS.                            *)
EXTENDS EntityCacheOps, Json, TLCExt, IOUtils
TraceLog == ndJsonDeserialize(IOEnv.TRACE)
VARIABLES l, store, clock, dttl, tx, flags, nstored, nhits
tvars == <<l, store, clock, dttl, tx, flags, nstored, nhits>>
Ev == TraceLog[l]
IsEvent(e) == l <= Len(TraceLog) /\ Ev.ev = e /\ l' = l + 1

SeqRange(s) == {s[i] : i \in 1..Len(s)}
NoTx == [t \in {} |-> 0]
Flag(name, cond) == IF cond THEN {name} ELSE {}

TraceInit == /\ l = 1 /\ TLCSet(1, 0) /\ store = EmptyStore /\ clock = 0 /\ dttl = 0 /\ tx = NoTx /\ flags = {}
             /\ nstored = 0 /\ nhits = 0

T_Reset == /\ IsEvent("reset")
           /\ store' = EmptyStore /\ clock' = 0 /\ dttl' = Ev.dttl /\ tx' = NoTx /\ flags' = {}
           /\ UNCHANGED <<nstored, nhits>>
T_Tick == /\ IsEvent("tick") /\ clock' = clock + Ev.d /\ flags' = {}
          /\ UNCHANGED <<store, dttl, tx, nstored, nhits>>
T_Req == /\ IsEvent("req") /\ tx' = NoTx /\ flags' = {}
         /\ UNCHANGED <<store, clock, dttl, nstored, nhits>>
T_Evict == /\ IsEvent("evict") /\ store' = Drop(store, Ev.k) /\ flags' = {}
           /\ UNCHANGED <<clock, dttl, tx, nstored, nhits>>

T_Get ==
  /\ IsEvent("get")
  /\ LET keys == SeqRange(Ev.keys)
         found == {Ev.found[i].k : i \in 1..Len(Ev.found)}
         \* an item that comes back with an empty Value is a miss
         full == Ev.res = "ok" /\ FullHit(found, keys) /\ Len(Ev.found) = Len(Ev.keys) /\ \A i \in 1..Len(Ev.found) : Ev.found[i].e = 0
     IN /\ tx' = [t \in DOMAIN tx \cup {Ev.t} |->
                    IF t = Ev.t THEN [keys |-> Ev.keys, full |-> full, loaded |-> FALSE, status |-> 0, clean |-> FALSE,
                                      dirs |-> <<>>, bad |-> FALSE, ents |-> <<>>, r |-> Ev.r]
                    ELSE tx[t]]
        /\ flags' = Flag("ServedOnlyStoredLive",
                         \E i \in 1..Len(Ev.found) : \/ Ev.found[i].k \notin Live(store, clock, keys)
                                                      \/ (Ev.found[i].e = 0 /\ store[Ev.found[i].k].val # Ev.found[i].vh))
        /\ nhits' = IF full THEN nhits + 1 ELSE nhits
  /\ UNCHANGED <<store, clock, dttl, nstored>>

T_Load ==
  /\ IsEvent("load")
  /\ LET base == IF Ev.t \in DOMAIN tx THEN tx[Ev.t]
                 ELSE [keys |-> <<>>, full |-> FALSE, loaded |-> FALSE, status |-> 0, clean |-> FALSE,
                       dirs |-> <<>>, bad |-> FALSE, ents |-> <<>>, r |-> Ev.r]
     IN tx' = [t \in DOMAIN tx \cup {Ev.t} |->
                 IF t = Ev.t THEN [base EXCEPT !.loaded = TRUE, !.status = Ev.status, !.clean = (Ev.clean = 1 /\ Ev.dead = 0),
                                               !.dirs = Ev.dirs, !.bad = (Ev.bad = 1), !.ents = Ev.ents]
                 ELSE tx[t]]
  /\ flags' = {}
  /\ UNCHANGED <<store, clock, dttl, nstored, nhits>>

\* items of a SetMany call as a function key -> [val, ttl] (last one wins)
ItemsFn(its) == [k \in {its[i].k : i \in 1..Len(its)} |->
                   LET i == CHOOSE i \in 1..Len(its) : its[i].k = k /\ \A j \in (i + 1)..Len(its) : its[j].k # k
                   IN [val |-> its[i].vh, ttl |-> its[i].ttl]]

T_Set ==
  /\ IsEvent("set")
  /\ LET its == Ev.items
         known == Ev.t \in DOMAIN tx
         f == IF known THEN tx[Ev.t] ELSE [keys |-> <<>>, full |-> FALSE, loaded |-> FALSE, status |-> 0, clean |-> FALSE,
                                           dirs |-> <<>>, bad |-> FALSE, ents |-> <<>>, r |-> Ev.r]
         aligned(it) == \E i \in 1..Len(f.keys) : /\ f.keys[i] = it.k /\ i <= Len(f.ents)
                                                  /\ f.ents[i].o = 1 /\ f.ents[i].vh = it.vh
         sound(it) == \A i \in 1..Len(f.keys) : (f.keys[i] = it.k /\ i <= Len(f.ents) /\ f.ents[i].tv # "?") => f.ents[i].tv = it.vh
         applied == SeqRange(Ev.applied)
     IN /\ flags' = Flag("StoredWithoutLoad", ~f.loaded)
                    \cup Flag("StoredWithoutKeys", f.keys = <<>>)
                    \cup Flag("StoredFromCleanSuccess", f.loaded /\ ~(Success(f.status) /\ f.clean))
                    \cup Flag("StoredOnlyIfAllowed", f.loaded /\ ~MayStore(f.dirs, f.bad, dttl))
                    \cup Flag("TTLWithinLifetime", f.loaded /\ MayStore(f.dirs, f.bad, dttl)
                                                   /\ \E i \in 1..Len(its) : ~TTLAllowed(its[i].ttl, f.dirs, f.bad, dttl))
                    \cup Flag("OneItemPerObjectEntity", \/ \E i \in 1..Len(its) : ~aligned(its[i])
                                                        \/ \E i, j \in 1..Len(its) : i # j /\ its[i].k = its[j].k
                                                        \/ its = <<>>)
                    \cup Flag("StoreSound", \E i \in 1..Len(its) : ~sound(its[i]))
        /\ applied \subseteq {its[i].k : i \in 1..Len(its)}
        /\ store' = Put(store, clock, ItemsFn(its), applied)
        /\ nstored' = nstored + Cardinality(applied)
  /\ UNCHANGED <<clock, dttl, tx, nhits>>

T_End ==
  /\ IsEvent("end")
  /\ flags' = Flag("CacheTransparent", Ev.same # 1)
              \* (requests of a history may run concurrently: only the fetches of the request that ended are judged)
              \* dd = 1: subgraph single flight is active between concurrent requests, a miss may be answered from the other
              \* request's in-flight exchange without an exchange of its own
              \cup Flag("PartialNeverServed", Ev.dd = 0 /\ \E t \in DOMAIN tx : tx[t].r = Ev.r /\ tx[t].keys # <<>> /\ ~tx[t].full /\ ~tx[t].loaded)
  /\ UNCHANGED <<store, clock, dttl, tx, nstored, nhits>>

TraceNext == T_Reset \/ T_Tick \/ T_Req \/ T_Evict \/ T_Get \/ T_Load \/ T_Set \/ T_End
TraceSpec == TraceInit /\ [][TraceNext]_tvars

Rules == {"CacheTransparent", "StoredFromCleanSuccess", "StoredOnlyIfAllowed", "TTLWithinLifetime", "OneItemPerObjectEntity",
          "StoreSound", "StoredWithoutLoad", "StoredWithoutKeys", "PartialNeverServed", "ServedOnlyStoredLive"}
CacheTransparent == "CacheTransparent" \notin flags
StoredFromCleanSuccess == "StoredFromCleanSuccess" \notin flags
StoredOnlyIfAllowed == "StoredOnlyIfAllowed" \notin flags
TTLWithinLifetime == "TTLWithinLifetime" \notin flags
OneItemPerObjectEntity == "OneItemPerObjectEntity" \notin flags
StoreSound == "StoreSound" \notin flags
StoredWithoutLoad == "StoredWithoutLoad" \notin flags
StoredWithoutKeys == "StoredWithoutKeys" \notin flags
PartialNeverServed == "PartialNeverServed" \notin flags
ServedOnlyStoredLive == "ServedOnlyStoredLive" \notin flags

\* high-water mark of consumed lines; batch mode also reports the broken rules of the event just consumed (line l - 1)
HighWater == TLCSet(1, IF l > TLCGet(1) THEN l ELSE TLCGet(1))
Report == /\ HighWater
          /\ (flags = {} \/ PrintT(ToJson([flagged |-> l - 1, rules |-> flags])))
          /\ (l <= Len(TraceLog) \/ PrintT(ToJson([stored |-> nstored, hits |-> nhits])))
TraceAccepted ==
  IF TLCGet(1) = Len(TraceLog) + 1 THEN TRUE
  ELSE /\ PrintT(<<"TRACE_STUCK_AT_LINE", TLCGet(1)>>)
       /\ FALSE
=============================================================================
