SPECIFICATION TraceSpec
CONSTRAINT HighWater
INVARIANTS CacheTransparent StoredFromCleanSuccess StoredOnlyIfAllowed TTLWithinLifetime OneItemPerObjectEntity StoreSound StoredWithoutLoad StoredWithoutKeys PartialNeverServed ServedOnlyStoredLive
POSTCONDITION TraceAccepted
CHECK_DEADLOCK FALSE
