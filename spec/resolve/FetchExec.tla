----------------------------- MODULE FetchExec -----------------------------
(* C07 - execution of a fetch tree when subgraph requests fail                  *)
(* (resolve/loader.go: resolveSingle = preparePhase [db] -> loadPhase ->         *)
(* mergePhase [db]; shouldSkipErroredDependencyLocked; recordErroredFetchID;    *)
(* mergeResult and its error kinds; resolveParallel = plain errgroup).          *)
(*                                                                             *)
(* One behaviour = one client operation.  inst is the instance:                 *)
(*   n      number of planned fetches, ids 1..n                                 *)
(*   tree   Sequence / Parallel / Single tree (shape of module FetchTree)       *)
(*   deps   f -> ids f depends on (FetchDependencies.DependsOnFetchIDs)          *)
(*   fault  f -> "ok" or the way the subgraph request of f fails                 *)
(*   e0     f -> set of entities (representations) f is sent with when nothing  *)
(*               fails; {} = f is not sent in the fault-free run                *)
(* Per fetch: pending -> skipped                      (errored dependency)      *)
(*            ... -> loaded -> partial                (data + errors)           *)
(*            pending -> prepared -> denied -> failed (rate limited, never sent) *)
(*            pending -> prepared -> noload -> empty  (nothing to ask for)      *)
(*            pending -> prepared -> inflight -> loaded|loadedErr -> merged|failed *)
(* The same actions are used by the model checker (MC_FetchExec), the           *)
(* generator of fault assignments and completion orders (Gen_FetchExec) and     *)
(* the validator of traces recorded from the real loader (Trace_FetchExec).     *)
EXTENDS FetchTree

Kinds == {"Transport", "Non2xxNonJSON", "EmptyBody", "NonJSON", "ErrorsNoData", "DataNull", "WrongEntityCount",
          "PartialData", "Non2xxJSON", "RateLimited"}
\* RateLimited: the fetch is denied by the rate limiter (resolve.Context.SetRateLimiter) in the pre-fetch validation: nothing
\*              is sent, the denial is reported; for isolation purposes a denied fetch is a failed fetch.
\* (Kinds are classes: the generator refines Non2xxNonJSON by status code and PartialData / ErrorsNoData by the shape of
\*  their errors array, see Gen_FetchExec!variant - the behaviour demanded here does not depend on the refinement.)
\* PartialData: 200 with data AND errors - the answer is merged, its errors are forwarded; what the subgraph nulled is missing.
\* Non2xxJSON:  a 5xx status with a complete, valid GraphQL body.  GraphQL-over-HTTP lets a client trust such a body,
\*              so the gateway may use it (merged, nothing reported) or reject it (failed, reported) - but consistently.
\* failures for which the data source returns a Go error (res.err # nil): only these are
\* recorded in Loader.erroredFetchIDs; every other kind is detected in mergeResult.
Hard == {"Transport"}
Terminal == {"skipped", "empty", "failed", "merged", "partial"}

VARIABLES inst, st, errored, ents, sent, rep
vars == <<inst, st, errored, ents, sent, rep>>

Ids == 1..inst.n
Before == Prec(inst.tree)
Pred(f) == {g \in Ids : <<g, f>> \in Before}

RECURSIVE AncR(_, _)
AncR(S, k) == IF k = 0 THEN S ELSE AncR(S \cup UNION {inst.deps[g] : g \in S}, k - 1)
\* transitive dependencies
Anc(f) == AncR(inst.deps[f], inst.n)

Done(f) == st[f] \in Terminal
AllFetchesDone == \A f \in Ids : Done(f)
\* everything f's input was derived from arrived completely
Clean(f) == \A a \in Anc(f) : st[a] = "merged" /\ ents[a] = inst.e0[a]

InitState ==
  /\ st = [f \in Ids |-> "pending"]
  /\ errored = {}
  /\ ents = [f \in Ids |-> {}]
  /\ sent = {}
  /\ rep = [f \in Ids |-> 0]

\* resolveFetchNodeWithCtx reaches the Single node of f: everything that precedes it structurally returned
CanStart(f) == st[f] = "pending" /\ \A g \in Pred(f) : Done(g)

\* preparePhase [db]: shouldSkipErroredDependencyLocked -> the fetch is dropped and counts as errored itself
PrepareSkip(f) ==
  /\ CanStart(f)
  /\ inst.deps[f] \cap errored # {}
  /\ st' = [st EXCEPT ![f] = "skipped"]
  /\ errored' = errored \cup {f}
  /\ UNCHANGED <<inst, ents, sent, rep>>

\* preparePhase [db]: items selected from the merged data, input rendered
Prepare(f) ==
  /\ CanStart(f)
  /\ inst.deps[f] \cap errored = {}
  /\ st' = [st EXCEPT ![f] = "prepared"]
  /\ UNCHANGED <<inst, errored, ents, sent, rep>>

\* loadPhase, skipLoad: there is nothing to ask for.  Only possible when something f depends on is missing
\* (or f is not sent in the fault-free run either).
NoLoad(f) ==
  /\ st[f] = "prepared"
  /\ st' = [st EXCEPT ![f] = "noload"]
  /\ UNCHANGED <<inst, errored, ents, sent, rep>>

\* preparePhase, validatePreFetch: the rate limiter denies the rendered request (skipLoad, rateLimitRejected)
Deny(f) ==
  /\ st[f] = "prepared"
  /\ inst.fault[f] = "RateLimited"
  /\ st' = [st EXCEPT ![f] = "denied"]
  /\ UNCHANGED <<inst, errored, ents, sent, rep>>

\* loadPhase: the request leaves with entity set E
Send(f, E) ==
  /\ st[f] = "prepared"
  /\ inst.fault[f] # "RateLimited"
  /\ st' = [st EXCEPT ![f] = "inflight"]
  /\ ents' = [ents EXCEPT ![f] = E]
  /\ sent' = sent \cup {f}
  /\ UNCHANGED <<inst, errored, rep>>

\* loadPhase: the subgraph answered (or the transport failed): recordErroredFetchID for res.err # nil
LoadEnd(f) ==
  /\ st[f] = "inflight"
  /\ IF inst.fault[f] \in Hard
     THEN st' = [st EXCEPT ![f] = "loadedErr"] /\ errored' = errored \cup {f}
     ELSE st' = [st EXCEPT ![f] = "loaded"] /\ UNCHANGED errored
  /\ UNCHANGED <<inst, ents, sent, rep>>

\* mergePhase [db]: k = number of entries mergeResult added to the errors of the response
Merge(f, k) ==
  /\ st[f] \in {"loaded", "loadedErr", "noload", "denied"}
  /\ st' = [st EXCEPT ![f] = CASE st[f] = "noload" -> "empty"
                                [] st[f] = "denied" -> "failed"
                                [] inst.fault[f] = "ok" -> "merged"
                                [] inst.fault[f] = "PartialData" -> "partial"
                                [] inst.fault[f] = "Non2xxJSON" -> (IF k = 0 THEN "merged" ELSE "failed")
                                [] OTHER -> "failed"]
  /\ rep' = [rep EXCEPT ![f] = k]
  /\ UNCHANGED <<inst, errored, ents, sent>>

\* what the specification allows a fetch to be sent with
AllowedEnts(f) == IF Clean(f) THEN {inst.e0[f]} ELSE SUBSET inst.e0[f]

StepOf(f) ==
  \/ PrepareSkip(f)
  \/ Prepare(f)
  \/ (\E E \in AllowedEnts(f) : IF E = {} THEN NoLoad(f)
                                ELSE IF inst.fault[f] = "RateLimited" THEN Deny(f) ELSE Send(f, E))
  \/ (st[f] = "denied" /\ \E k \in 1..2 : Merge(f, k))
  \/ LoadEnd(f)
  \/ (st[f] = "noload" /\ Merge(f, 0))
  \/ (st[f] \in {"loaded", "loadedErr"} /\ inst.fault[f] = "ok" /\ Merge(f, 0))
  \/ (st[f] \in {"loaded", "loadedErr"} /\ inst.fault[f] = "Non2xxJSON" /\ Merge(f, 0))
  \/ (st[f] \in {"loaded", "loadedErr"} /\ inst.fault[f] # "ok" /\ \E k \in 1..2 : Merge(f, k))

Next == \E f \in Ids : StepOf(f)

-----------------------------------------------------------------------------
(* Properties.  They are stated over the observable part of the state so that *)
(* they can be evaluated on recorded traces, where ents / rep / the skip       *)
(* decisions are whatever the real loader did.                                 *)

\* a request that is sent under faults is also sent fault-free, with at most a subset of the entities
NoFabrication == \A f \in sent : inst.e0[f] # {} /\ ents[f] \subseteq inst.e0[f]
\* a denied request never reaches its subgraph
DeniedNotSent == \A f \in Ids : st[f] = "denied" => f \notin sent

\* a fetch none of whose transitive dependencies is faulty is neither skipped nor starved nor changed
NoFaultyAnc(f) == \A a \in Anc(f) : inst.fault[a] = "ok"
Independent ==
  \A f \in Ids : NoFaultyAnc(f) =>
     /\ st[f] # "skipped"
     /\ (st[f] \in {"noload", "empty"} => inst.e0[f] = {})
     /\ (f \in sent => ents[f] = inst.e0[f])

\* a skip always has a reason: some (transitive) dependency really failed or was skipped itself
\* (whether the loader learns about the failure from a Go error or from the merge is its business)
SkipJustified ==
  \A f \in Ids : st[f] = "skipped" => \E a \in Anc(f) : st[a] \in {"skipped", "loadedErr", "failed"}

\* every failed request is reported at least once; a successful one reports nothing
ErrorReportedPerFetch == \A f \in Ids : (st[f] \in {"failed", "partial"} => rep[f] >= 1) /\ (st[f] \in {"merged", "empty"} => rep[f] = 0)
Failed == {f \in Ids : st[f] \in {"failed", "partial"}}
ErrorReported == (AllFetchesDone /\ Failed # {}) => \E f \in Failed : rep[f] >= 1

\* dependencies are merged (or have failed for good) before a fetch reads the data
DepsSettled == \A f \in Ids : st[f] # "pending" => \A d \in inst.deps[f] : Done(d)

TypeOK ==
  /\ st \in [Ids -> {"pending", "skipped", "prepared", "noload", "empty", "denied", "inflight", "loaded", "loadedErr", "failed", "merged", "partial"}]
  /\ errored \subseteq Ids
  /\ sent \subseteq Ids

\* liveness: under weak fairness of every fetch the operation terminates, whatever fails
Terminates == <>[]AllFetchesDone
=============================================================================
