CONSTANTS
  Menu <- Gen_Menu
  Headers <- Gen_Headers
  DefaultTTL = 2
  Pairs <- Conc_Pairs
  HeaderChoice <- Conc_HeaderChoice
  Bug = "none"
SPECIFICATION GenSpec
CONSTRAINT GenConstraint
INVARIANTS ServedTruth StoreSound
CHECK_DEADLOCK FALSE
