CONSTANTS
  Menu <- MC_MenuSmall
  Headers <- MC_Headers
  Outcomes <- MC_Outcomes
  DefaultTTL = 2
  MaxReq = 2
  MaxTick = 1
  GetFaults = TRUE
  SetFaults = "none"
  MaxEvict = 0
  TTLSlack = FALSE
  Bug = "none"
SPECIFICATION Spec
PROPERTIES NeverHit
CHECK_DEADLOCK FALSE
